"""CLI of the verification machinery.

    python -m bbv.run C03 --tier quick|thorough      run one property's check
    python -m bbv.run --replay replay/<file>.json    re-run one recorded violating case

Exit status: 0 = property held on everything explored (known findings are printed as
KNOWN-FINDING lines); 1 = at least one violation outside known_findings.json (one
`VIOLATION property=<id> replay=<path>` line per distinct class); >1 = the harness failed.
"""
import argparse
import hashlib
import importlib
import json
import os
import shutil
import sys
import tempfile
import time
import types

VERIF = os.path.dirname(os.path.dirname(os.path.abspath(__file__)))
GUARD = "XANADUAI_BLACKBIRD_VERIF"


def _reexec(seed):
    repo = os.environ.get("BBV_REPO", "/repo")
    env = dict(os.environ)
    env["BBV_CHILD"] = "1"
    env["BBV_REPO"] = repo
    env["PYTHONPATH"] = os.path.join(repo, "blackbird_python") + os.pathsep + VERIF
    env["PYTHONDONTWRITEBYTECODE"] = "1"
    env["PYTHONHASHSEED"] = str(seed % 4294967295)
    env[GUARD] = "1"
    env["PYTHONWARNINGS"] = "ignore"
    env.setdefault("OMP_NUM_THREADS", "1")
    env.setdefault("OPENBLAS_NUM_THREADS", "1")
    os.execve(sys.executable, [sys.executable, "-m", "bbv.run"] + sys.argv[1:], env)


def load_known():
    path = os.path.join(VERIF, "known_findings.json")
    if not os.path.exists(path):
        return {"open": [], "fixed": []}
    return json.load(open(path))


def _digest(obj):
    return hashlib.sha1(json.dumps(obj, sort_keys=True, default=repr).encode()).hexdigest()[:12]


def check_import(repo):
    import blackbird
    here = os.path.realpath(blackbird.__file__)
    want = os.path.realpath(os.path.join(repo, "blackbird_python"))
    if not here.startswith(want + os.sep):
        print("HARNESS ERROR: blackbird imported from %s, expected under %s" % (here, want))
        sys.exit(3)


def main():
    ap = argparse.ArgumentParser()
    ap.add_argument("prop", nargs="?")
    ap.add_argument("--tier", default=None)
    ap.add_argument("--replay", default=None)
    ap.add_argument("--no-evidence", action="store_true", help="do not rewrite evidence/ (used by the self-test on scratch copies)")
    a = ap.parse_args()
    seed = int(os.environ.get("VERIF_SEED", "0") or 0)
    if os.environ.get("BBV_CHILD") != "1":
        _reexec(seed)
    import warnings
    warnings.simplefilter("ignore")
    repo = os.environ["BBV_REPO"]
    check_import(repo)
    tier = a.tier or os.environ.get("VERIF_TIER") or "quick"
    if tier not in ("quick", "thorough"):
        tier = "quick"

    if a.replay:
        rec = json.load(open(a.replay))
        mod = importlib.import_module("bbv.props." + rec["property"].lower())
        still, detail = mod.replay(rec["case"])
        print("replay property=%s key=%s" % (rec["property"], rec["key"]))
        print("case:", json.dumps(rec["case"], indent=1)[:4000])
        print("recorded:", rec.get("detail"))
        print("now     :", detail)
        print("VIOLATION REPRODUCED" if still else "no violation on this tree")
        return 1 if still else 0

    pid = a.prop.upper()
    mod = importlib.import_module("bbv.props." + pid.lower())
    scratch = tempfile.mkdtemp(prefix="bbv-%s-" % pid.lower())
    ctx = types.SimpleNamespace(pid=pid, tier=tier, quick=(tier == "quick"), seed=seed, repo=repo,
                                scratch=scratch, verif=VERIF)
    t0 = time.time()
    try:
        rep = mod.run(ctx)
    finally:
        shutil.rmtree(scratch, ignore_errors=True)
    wall = time.time() - t0
    viol = rep.get("violations", [])
    known = load_known()
    open_keys = {e["key"]: e for e in known.get("open", []) if e.get("property") == pid}
    by_key = {}
    for v in viol:
        by_key.setdefault(v["key"], []).append(v)
    nin = lambda vs: max(len(vs), max(v.get("count", 0) for v in vs))
    status = 0
    # every reported class is replayed twice without the explorer: differing verdicts mean
    # nondeterminism the harness does not own -> hard error, not a violation
    notes = {}
    for key, vs in sorted(by_key.items()):
        v = vs[0]
        if getattr(mod, "REPLAYABLE", True):
            # each replay runs in a fresh fork of this process, so that both start from the same state whatever
            # the implementation keeps at module level (state the first replay leaves behind is the code's, not ours)
            from bbv.core import forked
            f1 = forked.run_forked(mod.replay, v["case"], timeout=1800)
            f2 = forked.run_forked(mod.replay, v["case"], timeout=1800)
            if f1[0] != "ok" or f2[0] != "ok":
                print("HARNESS ERROR: replay of %s failed: %r / %r" % (key, f1, f2))
                status = max(status, 3)
                continue
            r1, r2 = tuple(f1[1]), tuple(f2[1])
            if r1 != r2:
                print("HARNESS ERROR: two replays of %s disagree (nondeterminism the harness does not own): %r vs %r" % (key, r1, r2))
                print("case:", json.dumps(v["case"])[:2000])
                status = max(status, 3)
            elif not r1[0]:
                # observed during the exploration but not when the case runs alone from the import-time state:
                # the outcome depends on what the process did before (the subject of C12). It is still a wrong
                # result for this input, so it is reported, with this note.
                notes[key] = "NOT reproducible in isolation: the outcome depended on earlier cases in the same process (history dependence, see C12)"
    new_classes = 0
    for key, vs in sorted(by_key.items()):
        if "/harness-" in key:
            # the property module itself says its own machinery (model, generated script, sanity condition) failed
            print("HARNESS ERROR: %s (%d cases): %s" % (key, nin(vs), str(vs[0].get("detail"))[:300]))
            status = max(status, 3)
            continue
        if key in open_keys:
            print("KNOWN-FINDING: property=%s %s [%s; hit by %d explored cases]" % (pid, open_keys[key]["what"], key, nin(vs)))
            continue
        new_classes += 1
        v = vs[0]
        rec = {"property": pid, "key": key, "case": v["case"], "detail": v.get("detail"), "cases_in_class": nin(vs), "note": notes.get(key),
               "tier": tier, "seed": seed}
        os.makedirs(os.path.join(VERIF, "replay"), exist_ok=True)
        path = os.path.join(VERIF, "replay", "%s-%s.json" % (pid, _digest([key, v["case"]])))
        json.dump(rec, open(path, "w"), indent=1, default=repr)
        if new_classes <= 40:
            print("VIOLATION property=%s replay=%s" % (pid, path))
            print("   class=%s cases=%d detail=%s" % (key, nin(vs), str(v.get("detail"))[:300]))
            if key in notes:
                print("   note: " + notes[key])
        status = max(status, 1)
    if new_classes > 40:
        print("... %d further violation classes not listed" % (new_classes - 40))
    cov = rep["coverage"]
    ev = {"property_id": pid, "tier": tier, "seed": seed, "level": mod.LEVEL, "coverage": cov,
          "assumptions": rep.get("assumptions", []), "wall_s": round(wall, 2),
          "violations": sum(nin(vs) for k, vs in by_key.items() if k not in open_keys and "/harness-" not in k),
          "known_finding_hits": {k: nin(vs) for k, vs in by_key.items() if k in open_keys},
          "repo": repo}
    if not a.no_evidence:
        os.makedirs(os.path.join(VERIF, "evidence"), exist_ok=True)
        json.dump(ev, open(os.path.join(VERIF, "evidence", pid + ".json"), "w"), indent=1, default=repr)
    brief = {k: v for k, v in cov.items() if isinstance(v, (int, float, bool)) or k in ("bounds",)}
    print("%s tier=%s seed=%d wall=%.1fs %s" % (pid, tier, seed, wall, json.dumps(brief, default=repr)[:1500]))
    print("RESULT %s %s" % (pid, "ok" if status == 0 else ("VIOLATED" if status == 1 else "HARNESS-ERROR")))
    return status


if __name__ == "__main__":
    try:
        rc = main()
    except SystemExit:
        raise
    except BaseException:  # a crash of the machinery is not a verdict: never exit 1 for it
        import traceback
        traceback.print_exc()
        print("HARNESS ERROR: the check itself failed (see traceback above)")
        rc = 3
    sys.exit(rc)
