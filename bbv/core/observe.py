"""Canonical, hashable/JSON-able digests of values, programs and module state; comparators.

Two equality modes are offered:
* exact    -- `canon(v)` equality: same kind, bit-identical numbers, srepr-identical symbols.
* tolerant -- `veq(a, b, rtol)`: kind-aware, numbers within a relative tolerance, symbolic
              expressions equal when evaluated at three generic points.
NumPy scalars count as the corresponding Python kind (the properties never distinguish them).
"""
import cmath
import math
import types

import numpy as np
import sympy as sym

PTS = (1.3, 0.61, 2.17, 0.83, 1.91, 3.07, 0.47)  # generic evaluation points (no cancellation for small shapes)


def kind(v):
    if isinstance(v, (bool, np.bool_)):
        return "b"
    if isinstance(v, (int, np.integer)):
        return "i"
    if isinstance(v, (float, np.floating)):
        return "f"
    if isinstance(v, (complex, np.complexfloating)):
        return "c"
    if isinstance(v, str):
        return "s"
    if isinstance(v, (list, tuple)):
        return "l"
    if isinstance(v, np.ndarray):
        return "a"
    if isinstance(v, sym.Expr):
        return "sym"
    if type(v).__name__ == "RegRefTransform":
        return "rrt"
    if v is None:
        return "n"
    if isinstance(v, dict):
        return "d"
    if isinstance(v, (set, frozenset)):
        return "set"
    return "o:" + type(v).__name__


def _symenv(names, k):
    names = sorted(names)
    return {n: PTS[(j + k) % len(PTS)] + 0.113 * k + 0.0171 * j for j, n in enumerate(names)}


def sym_values(expr, k=3):
    """Values of a sympy expression at k generic points (symbols assigned by sorted name)."""
    names = sorted(str(s) for s in expr.free_symbols)
    out = []
    for i in range(k):
        env = _symenv(names, i)
        try:
            v = complex(expr.subs({sym.Symbol(n): x for n, x in env.items()}).evalf(30))
        except Exception as e:  # noqa
            v = "err:" + type(e).__name__
        out.append(v)
    return names, out


def rrt_values(r, k=3):
    """Evaluate a RegRefTransform's func, pairing measurement values with regrefs *as listed*."""
    regs = list(r.regrefs)
    out = []
    for i in range(k):
        env = _symenv(["q%d" % n for n in sorted(set(regs))], i)
        try:
            v = complex(r.func(*[env["q%d" % n] for n in regs]))
        except Exception as e:  # noqa
            v = "err:" + type(e).__name__
        out.append(v)
    return sorted(regs), out


def _r(z):
    """round complex to ~1e-9 relative for digests"""
    if isinstance(z, str):
        return z
    def rr(x):
        if x == 0 or not math.isfinite(x):
            return repr(x)
        return "%.9e" % x
    return (rr(z.real), rr(z.imag))


def canon(v, exact=True):
    k = kind(v)
    if k == "b":
        return ("b", bool(v))
    if k == "i":
        return ("i", int(v))
    if k == "f":
        return ("f", float(v).hex())
    if k == "c":
        z = complex(v)
        return ("c", z.real.hex(), z.imag.hex())
    if k == "s":
        return ("s", str(v))
    if k == "l":
        return ("l", tuple(canon(x, exact) for x in v))
    if k == "a":
        return ("a", v.dtype.kind, tuple(v.shape), tuple(canon(x, exact) for x in v.flatten().tolist()))
    if k == "sym":
        names, vals = sym_values(v)
        if exact:
            return ("sym", sym.srepr(v))
        return ("sym", tuple(names), tuple(_r(x) for x in vals))
    if k == "rrt":
        regs, vals = rrt_values(v)
        if exact:
            # bit-exact function values (the function is generated code: what it computes does not vary from run to run)
            hx = tuple((x.real.hex(), x.imag.hex()) if isinstance(x, complex) else x for x in vals)
            return ("rrt", tuple(regs), hx, sym.srepr(v.expr), str(getattr(v, "func_str", None)), str(v))
        return ("rrt", tuple(regs), tuple(_r(x) for x in vals))
    if k == "n":
        return ("n",)
    if k == "d":
        return ("d", tuple((str(a), canon(b, exact)) for a, b in v.items()))
    if k == "set":
        return ("set", tuple(sorted((canon(x, exact) for x in v), key=repr)))
    # unknown object (e.g. a program or a parser object cached at module level by a change): canonicalise its
    # attributes rather than its repr, which would contain a memory address and make every state look new
    if _depth[0] < 4 and hasattr(v, "__dict__"):
        _depth[0] += 1
        try:
            return ("o", type(v).__name__, tuple((k, canon(x, exact)) for k, x in sorted(vars(v).items()) if not callable(x)))
        finally:
            _depth[0] -= 1
    import re as _re
    return ("o", type(v).__name__, _re.sub(r"0x[0-9a-fA-F]+", "0x", repr(v))[:200])


_depth = [0]


def close(a, b, rtol=1e-12, atol=1e-300):
    a = complex(a)
    b = complex(b)
    if not (cmath.isfinite(a) and cmath.isfinite(b)):
        return repr(a) == repr(b)
    return abs(a - b) <= max(rtol * max(abs(a), abs(b)), atol)


def veq(a, b, rtol=1e-12, sym_rtol=1e-9, exact_zero_sign=False):
    """Kind-aware equality of two implementation values (or model value vs implementation value)."""
    ka, kb = kind(a), kind(b)
    if ka != kb:
        return False
    if ka in ("b", "s"):
        return a == b
    if ka == "i":
        return int(a) == int(b)
    if ka == "f":
        if rtol == 0:
            return float(a).hex() == float(b).hex() if exact_zero_sign else float(a) == float(b)
        return close(a, b, rtol)
    if ka == "c":
        if rtol == 0:
            return canon(a) == canon(b) if exact_zero_sign else complex(a) == complex(b)
        return close(a, b, rtol)
    if ka == "l":
        return len(a) == len(b) and all(veq(x, y, rtol, sym_rtol, exact_zero_sign) for x, y in zip(a, b))
    if ka == "a":
        if a.shape != b.shape or a.dtype.kind != b.dtype.kind:
            return False
        return all(veq(x, y, rtol, sym_rtol, exact_zero_sign) for x, y in zip(a.flatten().tolist(), b.flatten().tolist()))
    if ka == "sym":
        na, va = sym_values(a)
        nb, vb = sym_values(b)
        return na == nb and all((x == y) if isinstance(x, str) or isinstance(y, str) else close(x, y, sym_rtol, 1e-12) for x, y in zip(va, vb))
    if ka == "rrt":
        ra, va = rrt_values(a)
        rb, vb = rrt_values(b)
        return ra == rb and all((x == y) if isinstance(x, str) or isinstance(y, str) else close(x, y, sym_rtol, 1e-12) for x, y in zip(va, vb))
    if ka == "n":
        return True
    if ka == "d":
        return list(a) == list(b) and all(veq(a[k], b[k], rtol, sym_rtol, exact_zero_sign) for k in a)
    if ka == "set":
        return canon(a) == canon(b)
    return repr(a) == repr(b)


def op_canon(op, exact=True, argskey=True):
    out = [("op", op.get("op")), ("modes", tuple(canon(m, exact) for m in op.get("modes", ())))]
    if argskey:
        out.append(("has_args", "args" in op, "kwargs" in op))
    out.append(("args", tuple(canon(a, exact) for a in op.get("args", ()))))
    out.append(("kwargs", tuple((k, canon(v, exact)) for k, v in op.get("kwargs", {}).items())))
    extra = sorted(set(op) - {"op", "modes", "args", "kwargs"})
    if extra:
        out.append(("extra", tuple((k, canon(op[k], exact)) for k in extra)))
    return tuple(out)


def prog_canon(p, exact=True, variables=True, argskey=True):
    """Deep canonical content of a BlackbirdProgram through its public attributes."""
    return (
        ("name", p.name), ("version", p.version),
        ("target", p.target.get("name"), canon(p.target.get("options", {}), exact)),
        ("type", p.programtype.get("name"), canon(p.programtype.get("options", {}), exact)),
        ("parameters", tuple(sorted(p.parameters))),
        ("modes", tuple(sorted(int(m) for m in p.modes))),
        ("ops", tuple(op_canon(o, exact, argskey) for o in p.operations)),
        ("vars", tuple((k, canon(v, exact)) for k, v in sorted(p.variables.items())) if variables else ()),
        ("len", len(p)),
    )


def jsonable(x):
    """Turn canonical tuples / arbitrary values into something json.dump accepts."""
    if isinstance(x, (str, int, float, bool)) or x is None:
        return x
    if isinstance(x, complex):
        return repr(x)
    if isinstance(x, (list, tuple)):
        return [jsonable(i) for i in x]
    if isinstance(x, dict):
        return {str(k): jsonable(v) for k, v in x.items()}
    if isinstance(x, (set, frozenset)):
        return sorted((jsonable(i) for i in x), key=repr)
    if isinstance(x, np.ndarray):
        return {"ndarray": x.tolist() if x.dtype != object else [repr(i) for i in x.flatten()], "shape": list(x.shape), "dtype": str(x.dtype)}
    if isinstance(x, np.generic):
        return jsonable(x.item())
    return repr(x)


# ---------------------------------------------------------------------------------------
# module-level mutable state of the implementation

_TRANSPARENT = ("blackbirdLexer", "blackbirdParser")  # ANTLR generated modules: DFA / prediction caches


def module_state():
    """Canonical snapshot of every dict/list/set that is a global of a `blackbird.*` module
    (generated ANTLR modules excluded: their caches are semantically transparent memo tables)."""
    import sys
    out = []
    for mname in sorted(sys.modules):
        if not (mname == "blackbird" or mname.startswith("blackbird.")):
            continue
        if mname.split(".")[-1] in _TRANSPARENT or ".tests" in mname:
            continue
        mod = sys.modules[mname]
        if mod is None:
            continue
        for gname, val in sorted(vars(mod).items()):
            if gname.startswith("__") or isinstance(val, (types.ModuleType, type, types.FunctionType)):
                continue
            if gname in ("PYTHON_TYPES", "NUMPY_TYPES"):
                out.append((mname, gname, tuple(sorted(val))))
                continue
            if isinstance(val, (dict, list, set)):
                out.append((mname, gname, canon(val)))
    # class attributes that are mutable containers (a hoisted instance attribute shows up here)
    for mname in ("blackbird.listener", "blackbird.program"):
        mod = sys.modules.get(mname)
        if mod is None:
            continue
        for cname, cls in sorted(vars(mod).items()):
            if isinstance(cls, type) and cls.__module__ == mname:
                for aname, val in sorted(vars(cls).items()):
                    if isinstance(val, (dict, list, set)) and not aname.startswith("__"):
                        out.append((mname, cname + "." + aname, canon(val)))
    # process-wide settings that evaluation depends on and that a failed call might leave changed
    try:
        import numpy as _np
        out.append(("env", "numpy.geterr", tuple(sorted(_np.geterr().items()))))
    except Exception:  # noqa
        pass
    out.append(("env", "recursionlimit", sys.getrecursionlimit()))
    return tuple(out)


def reset_tables():
    """Empty the evaluator's module-level tables before a case (used by every property except
    C12, whose subject *is* the leftover state)."""
    try:
        from blackbird import auxiliary as aux
    except Exception:  # noqa
        return
    for n in ("_VAR", "_PARAMS"):
        t = getattr(aux, n, None)
        if hasattr(t, "clear"):
            t.clear()
