"""Choice-point explorer for iteration orders (the stateless-explorer idiom: rerun with a forced prefix,
branch on every later point).

The seam sits in SymPy, below the code under test: `Basic.free_symbols` (and every subclass override) is
wrapped so that, only when the *caller's module* is `blackbird.*`, it returns a `set` subclass whose
`__iter__` asks the active schedule which permutation to deliver.  Calls from inside SymPy / NumPy keep the
plain set, so SymPy's own behaviour is untouched and the schedule tree stays small.
"""
import itertools
import sys

_installed = False
_active = None      # the Schedule currently driving choices (None = default sorted order)


class Schedule:
    def __init__(self, prefix=()):
        self.prefix = list(prefix)
        self.points = []      # number of alternatives at each choice point met
        self.taken = []
        self.i = 0

    def choose(self, n):
        if self.i < len(self.prefix):
            c = self.prefix[self.i]
            if c >= n:
                raise RuntimeError("schedule divergence: forced choice %d at point %d which has %d alternatives" % (c, self.i, n))
        else:
            c = 0
        self.points.append(n)
        self.taken.append(c)
        self.i += 1
        return c


def _from_blackbird(depth=2):
    f = sys._getframe(depth)
    return f.f_globals.get("__name__", "").startswith("blackbird")


class ChoiceSet(set):
    """a set whose iteration order is a scheduled choice when iterated from blackbird code"""

    def __iter__(self):
        items = sorted(set.__iter__(self), key=str)
        if len(items) < 2 or _active is None or not _from_blackbird(2):
            return iter(items)
        perms = list(itertools.permutations(items))
        return iter(perms[_active.choose(len(perms))])

    def __repr__(self):
        items = sorted(set.__iter__(self), key=str)
        if not items:
            return "set()"
        return "{" + ", ".join(repr(x) for x in items) + "}"

    __str__ = __repr__


def _wrap(prop):
    def fs(self):
        r = prop.fget(self)
        if _from_blackbird(2):
            return ChoiceSet(r)
        return r
    return property(fs)


def _all_subclasses(c):
    out = set()
    for s in c.__subclasses__():
        out.add(s)
        out |= _all_subclasses(s)
    return out


def install():
    """idempotent; returns number of classes patched"""
    global _installed
    if _installed:
        return 0
    import sympy  # noqa: F401
    from sympy.core.basic import Basic
    n = 0
    for cls in [Basic] + sorted(_all_subclasses(Basic), key=lambda c: c.__module__ + c.__name__):
        p = cls.__dict__.get("free_symbols")
        if isinstance(p, property):
            try:
                setattr(cls, "free_symbols", _wrap(p))
                n += 1
            except (AttributeError, TypeError):
                pass
    _installed = True
    return n


def explore(fn, cap=20000):
    """run fn() under every combination of iteration orders; returns (list of (choices, result), capped?)"""
    global _active
    results = []
    stack = [[]]
    capped = False
    while stack:
        if len(results) >= cap:
            capped = True
            break
        prefix = stack.pop()
        s = Schedule(prefix)
        _active = s
        try:
            r = fn()
        finally:
            _active = None
        results.append((tuple(s.taken), r))
        for i in range(len(prefix), len(s.points)):
            for alt in range(1, s.points[i]):
                stack.append(s.taken[:i] + [alt])
    return results, capped


def replay(fn, choices):
    """run fn() once under a recorded schedule (divergence while replaying the prefix is a hard error)"""
    global _active
    s = Schedule(choices)
    _active = s
    try:
        r = fn()
    finally:
        _active = None
    if s.taken[:len(choices)] != list(choices)[:len(s.taken)]:
        raise RuntimeError("schedule divergence on replay")
    return tuple(s.taken), r
