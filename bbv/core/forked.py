"""Run a function in a fresh fork of the current (pristine) process and return its pickled result.

Used by the explicit-state searches whose subject is process-level state (C12): the parent imports the
implementation but never calls it, so every fork starts from the import-time state, whatever module-level
state a change to the implementation may have introduced (nothing has to be known about it to reset it).
"""
import os
import pickle
import signal
import traceback


def run_forked(func, arg, timeout=120):
    r, w = os.pipe()
    pid = os.fork()
    if pid == 0:
        code = 0
        try:
            os.close(r)
            signal.alarm(timeout)
            try:
                res = ("ok", func(arg))
            except BaseException:  # noqa
                res = ("crash", traceback.format_exc())
            with os.fdopen(w, "wb") as f:
                pickle.dump(res, f)
        except BaseException:  # noqa
            code = 1
        finally:
            os._exit(code)
    os.close(w)
    with os.fdopen(r, "rb") as f:
        data = f.read()
    _, status = os.waitpid(pid, 0)
    if not data:
        return ("died", "child exited with status %r (timeout or crash)" % (status,))
    return pickle.loads(data)
