"""Long-lived worker processes with deterministic sharding.

Workers are forked *after* the implementation under test has been imported by the parent, so
every worker runs the same code from the same tree.  Results come back in input order, so a
run is reproducible whatever the scheduling of the workers was.
"""
import multiprocessing
import os
import signal
import traceback

NPROC = int(os.environ.get("BBV_NPROC", "0")) or min(16, os.cpu_count() or 1)
CASE_TIMEOUT = int(os.environ.get("BBV_CASE_TIMEOUT", "120"))


class CaseTimeout(BaseException):
    """raised by the alarm; a BaseException so that `except Exception` around the implementation cannot swallow it"""


def _alarm(signum, frame):
    raise CaseTimeout()


def _run_chunk(payload):
    func, chunk, timeout = payload
    out = []
    signal.signal(signal.SIGALRM, _alarm)
    for item in chunk:
        signal.alarm(timeout)
        try:
            out.append(("ok", func(item)))
        except CaseTimeout:
            out.append(("timeout", None))
        except BaseException:  # harness bug: surface it, never swallow
            out.append(("crash", traceback.format_exc()))
        finally:
            signal.alarm(0)
    return out


class HarnessError(Exception):
    """The harness itself failed (not a verdict about the implementation)."""


def pmap(func, items, chunk=None, nproc=None, timeout=None):
    """Apply top-level function `func` to every item; returns list of results in input order.

    A case that times out is re-run once alone; a second timeout is returned as the string
    'TIMEOUT' so the property can report "no outcome".  A crash inside `func` is a harness
    error and aborts the run (exit status != 0/1 => the check is broken, not the code).
    """
    items = list(items)
    timeout = timeout or CASE_TIMEOUT      # per item; tasks that enumerate a whole subtree pass a large value
    nproc = nproc or NPROC
    if not items:
        return []
    if chunk is None:
        chunk = max(1, min(64, len(items) // (nproc * 8) or 1))
    chunks = [items[i:i + chunk] for i in range(0, len(items), chunk)]
    if nproc == 1 or len(items) < 4:
        res = [_run_chunk((func, c, timeout)) for c in chunks]
    else:
        ctx = multiprocessing.get_context("fork")
        with ctx.Pool(min(nproc, len(chunks))) as pool:
            res = pool.map(_run_chunk, [(func, c, timeout) for c in chunks], chunksize=1)
    flat = [r for c in res for r in c]
    out = []
    for item, (tag, val) in zip(items, flat):
        if tag == "ok":
            out.append(val)
        elif tag == "timeout":
            tag2, val2 = _run_chunk((func, [item], timeout))[0]
            if tag2 == "ok":
                out.append(val2)
            elif tag2 == "timeout":
                out.append("TIMEOUT")
            else:
                raise HarnessError(val2)
        else:
            raise HarnessError(val)
    return out
