"""Bounded-exhaustive sentence enumeration per grammar rule, shortest embedding contexts, token
interchangeability classes and token exemplars - all computed from the .g4 of the current tree."""
import collections


def interchange_classes(G):
    """terminals that only ever occur in single-symbol alternatives of the same nonterminals"""
    occ = collections.defaultdict(set)
    for lhs, pl in G.prods.items():
        for p in pl:
            for i, x in enumerate(p):
                if x not in G.nts:
                    occ[x].add((lhs, p[:i], p[i + 1:]))
    groups = collections.defaultdict(list)
    for t, o in occ.items():
        groups[frozenset(o)].append(t)
    classes = {}
    for o, ts in groups.items():
        # only alternatives that consist of the terminal alone are safely interchangeable
        if len(ts) > 1 and all(a == () and b == () for _, a, b in o):
            rep = sorted(ts)[0]
            for t in ts:
                classes[t] = rep
    return classes


def shortest(G):
    """shortest terminal string of every nonterminal (tuple), by fixpoint"""
    best = {}
    changed = True
    while changed:
        changed = False
        for lhs, pl in G.prods.items():
            for p in pl:
                s = ()
                ok = True
                for x in p:
                    if x in G.nts:
                        if x not in best:
                            ok = False
                            break
                        s += best[x]
                    else:
                        s += (x,)
                if ok and (lhs not in best or len(s) < len(best[lhs])):
                    best[lhs] = s
                    changed = True
    return best


def contexts(G):
    """shortest (prefix, suffix) terminal context of every nonterminal reachable from the start"""
    sh = shortest(G)

    def mn(seq):
        out = ()
        for x in seq:
            out += sh[x] if x in G.nts else (x,)
        return out
    ctx = {G.start: ((), ())}
    changed = True
    while changed:
        changed = False
        for lhs in list(ctx):
            pre, suf = ctx[lhs]
            for p in G.prods[lhs]:
                for i, x in enumerate(p):
                    if x in G.nts:
                        c = (pre + mn(p[:i]), mn(p[i + 1:]) + suf)
                        if x not in ctx or len(c[0]) + len(c[1]) < len(ctx[x][0]) + len(ctx[x][1]):
                            ctx[x] = c
                            changed = True
    return ctx


class Enumerator:
    """S[X][n] = set of terminal strings of exactly n tokens derivable from X (collapsed alphabet)."""

    def __init__(self, G, collapse):
        self.G = G
        drop = {t for t, rep in collapse.items() if t != rep}
        self.prods = {l: sorted({p for p in pl if not any(x in drop for x in p)}) for l, pl in G.prods.items()}
        self.nts = set(self.prods)
        self.S = collections.defaultdict(dict)
        self.level = -1

    def _seq(self, p, n):
        if not p:
            return {()} if n == 0 else set()
        x = p[0]
        out = set()
        if x in self.nts:
            for k in range(n + 1):
                a = self.S[x].get(k)
                if not a:
                    continue
                rest = self._seq(p[1:], n - k)
                if rest:
                    for u in a:
                        for v in rest:
                            out.add(u + v)
        elif n >= 1:
            for v in self._seq(p[1:], n - 1):
                out.add((x,) + v)
        return out

    def compute_level(self, n, active):
        for X in self.nts:
            self.S[X].setdefault(n, set())
        changed = True
        while changed:
            changed = False
            for X in active:
                new = set()
                for p in self.prods[X]:
                    new |= self._seq(p, n)
                if not new <= self.S[X][n]:
                    self.S[X][n] |= new
                    changed = True

    def counts(self, lmax):
        """derivation counts (upper bound on sentence counts) per nonterminal and length"""
        C = {X: [0] * (lmax + 1) for X in self.nts}

        def seqcount(p, n):
            ways = [1] + [0] * n
            for x in p:
                nw = [0] * (n + 1)
                for a in range(n + 1):
                    if not ways[a]:
                        continue
                    if x in self.nts:
                        for k in range(n - a + 1):
                            if C[x][k]:
                                nw[a + k] += ways[a] * C[x][k]
                    elif a + 1 <= n:
                        nw[a + 1] += ways[a]
                ways = nw
            return ways[n]
        for n in range(lmax + 1):
            for it in range(60):
                ch = False
                for X in self.nts:
                    v = sum(seqcount(p, n) for p in self.prods[X])
                    v = min(v, 10 ** 12)
                    if v != C[X][n]:
                        C[X][n] = v
                        ch = True
                if not ch:
                    break
        return C


def per_rule_sentences(G, rules, collapse, budget, lmax=14):
    """For every rule X: the largest L_X whose complete sentence set (derivation-count bound) stays
    within `budget`, and that complete set.  Returns {rule: (L_X, sorted list of token tuples)}.
    Needed sub-results are computed only as deep as some active rule requires."""
    en = Enumerator(G, collapse)
    C = en.counts(lmax)
    LX = {}
    for r in rules:
        cum = 0
        L = -1
        for n in range(lmax + 1):
            cum += C[r][n]
            if cum > budget:
                break
            L = n
        LX[r] = L
    # which nonterminals are needed up to which length: X needs sub-nonterminal x only up to
    # need[X] minus the minimal length of the rest of the production
    sh = shortest(G)
    mlen = lambda seq: sum(len(sh[y]) if y in en.nts else 1 for y in seq)
    need = collections.defaultdict(lambda: -1)
    for r in rules:
        need[r] = max(need[r], LX[r])
    changed = True
    while changed:
        changed = False
        for X in list(need):
            for p in en.prods[X]:
                for i, x in enumerate(p):
                    if x in en.nts:
                        k = need[X] - mlen(p[:i]) - mlen(p[i + 1:])
                        if k > need[x]:
                            need[x] = k
                            changed = True
    top = max(need.values()) if need else 0
    for n in range(top + 1):
        en.compute_level(n, [X for X in en.nts if need.get(X, -1) >= n])
    out = {}
    for r in rules:
        sents = set()
        for n in range(LX[r] + 1):
            sents |= en.S[r].get(n, set())
        out[r] = (LX[r], sorted(sents))
    return out


# one exemplar per token type; verified against the grammar-derived reference lexer at run time
EXEMPLARS = {
    "PLUS": "+", "MINUS": "-", "TIMES": "*", "DIVIDE": "/", "PWR": "**", "ASSIGN": "=", "FOR": "for", "IN": "in",
    "INT": "1", "FLOAT": "1.0", "COMPLEX": "1+2j", "STR": '"s"', "BOOL": "True", "SEQUENCE": "1,2", "PI": "pi",
    "NEWLINE": "\n", "TAB": "\t", "PROGNAME": "name", "VERSION": "version", "TARGET": "target", "PROGTYPE": "type",
    "INCLUDE": "include", "SQRT": "sqrt", "SIN": "sin", "COS": "cos", "TAN": "tan", "ARCSIN": "arcsin", "ARCCOS": "arccos",
    "ARCTAN": "arctan", "SINH": "sinh", "COSH": "cosh", "TANH": "tanh", "ARCSINH": "arcsinh", "ARCCOSH": "arccosh",
    "ARCTANH": "arctanh", "EXP": "exp", "LOG": "log", "PERIOD": ".", "COMMA": ",", "COLON": ":", "QUOTE": '"',
    "LBRAC": "(", "RBRAC": ")", "LSQBRAC": "[", "RSQBRAC": "]", "LBRACE": "{", "RBRACE": "}", "APPLY": "|",
    "TYPE_ARRAY": "array", "TYPE_FLOAT": "float", "TYPE_COMPLEX": "complex", "TYPE_INT": "int", "TYPE_STR": "str",
    "TYPE_BOOL": "bool", "REGREF": "q0", "MEASURE": "MeasureX", "NAME": "foo", "DEVICE": "x.y", "ANY": "$",
}
GLUE = {"NEWLINE", "TAB"}   # no blank next to these (a blank next to a TAB would merge into SPACE)


def to_text(tokens, exemplars=EXEMPLARS):
    out = []
    prev = None
    for t in tokens:
        if t == "EOF":
            continue
        if prev is not None and prev not in GLUE and t not in GLUE:
            out.append(" ")
        out.append(exemplars[t])
        prev = t
    return "".join(out)
