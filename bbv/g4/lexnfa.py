"""Reference lexer from g4 lexer rules: Thompson NFA, maximal munch, earliest rule wins (prototype)."""
from . import reader as g4
MAXCP=0x10FFFF
class NFA:
    def __init__(s): s.eps=[]; s.edges=[]; s.accept={}   # edges[state]=[(ranges,target)], ranges list of (lo,hi)
    def new(s): s.eps.append([]); s.edges.append([]); return len(s.eps)-1
def complement(ranges):
    rs=sorted(ranges); out=[]; cur=0
    for lo,hi in rs:
        if lo>cur: out.append((cur,lo-1))
        cur=max(cur,hi+1)
    if cur<=MAXCP: out.append((cur,MAXCP))
    return out
def build(lexrules):
    byname={r.name:r for r in lexrules}
    n=NFA(); start=n.new()
    tokens=[r for r in lexrules if not r.fragment]
    def frag(node,a):  # returns end state after consuming node from state a
        k=node.kind
        if k=='alt':
            end=n.new()
            for s_ in node.alts:
                b=n.new(); n.eps[a].append(b); e=frag(s_,b); n.eps[e].append(end)
            return end
        if k=='seq':
            cur=a
            for e in node.els: cur=frag(e,cur)
            return cur
        if k=='lit':
            cur=a
            for c in node.chars:
                b=n.new(); n.edges[cur].append(([(ord(c),ord(c))],b)); cur=b
            return cur
        if k=='set':
            b=n.new(); n.edges[a].append((list(node.ranges),b)); return b
        if k=='notset':
            b=n.new(); n.edges[a].append((complement(node.ranges),b)); return b
        if k=='any':
            b=n.new(); n.edges[a].append(([(0,MAXCP)],b)); return b
        if k=='ref':
            return frag(byname[node.name].body,a)
        if k=='opt':
            b=n.new(); n.eps[a].append(b); e=frag(node.e,b); end=n.new(); n.eps[e].append(end); n.eps[a].append(end); return end
        if k=='star':
            loop=n.new(); n.eps[a].append(loop); b=n.new(); n.eps[loop].append(b); e=frag(node.e,b); n.eps[e].append(loop); end=n.new(); n.eps[loop].append(end); return end
        if k=='plus':
            b=n.new(); n.eps[a].append(b); e=frag(node.e,b); n.eps[e].append(b); end=n.new(); n.eps[e].append(end); return end
        raise ValueError(k)
    info=[]
    for idx,r in enumerate(tokens):
        b=n.new(); n.eps[start].append(b); e=frag(r.body,b); n.accept[e]=idx
        cmds=[c for s_ in r.body.alts for c in s_.cmds]
        info.append((r.name,cmds))
    return n,start,info
def closure(n,states):
    st=set(states); stack=list(states)
    while stack:
        s=stack.pop()
        for t in n.eps[s]:
            if t not in st: st.add(t); stack.append(t)
    return frozenset(st)
def step(n,S,cp):
    out=set()
    for s in S:
        for ranges,t in n.edges[s]:
            for lo,hi in ranges:
                if lo<=cp<=hi: out.add(t); break
    return closure(n,out) if out else frozenset()
def acc(n,S):
    a=[n.accept[s] for s in S if s in n.accept]
    return min(a) if a else None
class RefLexer:
    def __init__(s,path=None):
        _,lx,ps=g4.read(path); s.nfa,s.start,s.info=build(lx); s.S0=closure(s.nfa,[s.start]); s.cache={}
        s.names=[i[0] for i in s.info]
    def tokens(s,text,keep_skipped=False):
        """returns list of (type_name,text,start); raises if no rule matches (cannot happen with ANY)"""
        pos=0; out=[]
        while pos<len(text):
            S=s.S0; i=pos; best=None
            while i<len(text) and S:
                key=(S,text[i]); 
                if key not in s.cache: s.cache[key]=step(s.nfa,S,ord(text[i]))
                S=s.cache[key]; i+=1
                if S:
                    a=acc(s.nfa,S)
                    if a is not None: best=(a,i)
            if best is None: raise ValueError("no token at %d"%pos)
            a,end=best; name,cmds=s.info[a]
            if 'skip' not in cmds or keep_skipped: out.append((name,text[pos:end],pos))
            pos=end
        return out
