"""Minimal reader for the ANTLR4 grammar subset used by blackbird.g4 (prototype)."""
import re
class Node:
    def __init__(s,kind,**kw): s.kind=kind; s.__dict__.update(kw)
    def __repr__(s): return "%s(%s)"%(s.kind,", ".join("%s=%r"%(k,v) for k,v in s.__dict__.items() if k!='kind'))
TOK=re.compile(r"""
   (?P<ws>\s+)|(?P<lc>//[^\n]*)|(?P<bc>/\*.*?\*/)|
   (?P<lit>'(?:\\.|[^'\\])*')|(?P<set>\[(?:\\.|[^\]\\])*\])|
   (?P<arrow>->)|(?P<pluseq>\+=)|(?P<opt><[^>]*>)|(?P<label>\#\s*[A-Za-z_]\w*)|
   (?P<id>[A-Za-z_]\w*)|(?P<p>[:;|()?*+~.=])
""",re.X|re.S)
def lex(text):
    pos=0; out=[]
    while pos<len(text):
        m=TOK.match(text,pos)
        if not m: raise SyntaxError("g4 lex error at %d: %r"%(pos,text[pos:pos+20]))
        pos=m.end(); k=m.lastgroup
        if k in('ws','lc','bc'): continue
        out.append((k,m.group()))
    return out
def unesc(s):
    out=[];i=0
    while i<len(s):
        c=s[i]
        if c=='\\':
            i+=1;c=s[i]
            if c=='u':
                out.append(chr(int(s[i+1:i+5],16))); i+=5; continue
            out.append({'n':'\n','r':'\r','t':'\t','b':'\b','f':'\f'}.get(c,c))
        else: out.append(c)
        i+=1
    return out
def parse_set(body):
    cs=unesc(body); ranges=[]; i=0
    while i<len(cs):
        if i+2<len(cs) and cs[i+1]=='-':
            ranges.append((ord(cs[i]),ord(cs[i+2]))); i+=3
        else: ranges.append((ord(cs[i]),ord(cs[i]))); i+=1
    return ranges
class P:
    def __init__(s,toks): s.t=toks; s.i=0
    def peek(s): return s.t[s.i] if s.i<len(s.t) else (None,None)
    def eat(s,v=None):
        k,x=s.peek()
        if v is not None and x!=v: raise SyntaxError("expected %r got %r"%(v,x))
        s.i+=1; return k,x
    def grammar(s):
        s.eat('grammar'); name=s.eat()[1]; s.eat(';'); rules=[]
        while s.peek()[0]:
            frag=False
            if s.peek()[1]=='fragment': s.eat(); frag=True
            rn=s.eat()[1]; s.eat(':'); alts=s.alts(); cmds=None
            s.eat(';')
            rules.append(Node('rule',name=rn,fragment=frag,body=alts))
        return name,rules
    def alts(s):
        a=[s.alt()]
        while s.peek()[1]=='|': s.eat(); a.append(s.alt())
        return Node('alt',alts=a)
    def alt(s):
        els=[]; assoc=None; label=None; cmds=[]
        while True:
            k,x=s.peek()
            if k is None or x in('|',')',';'): break
            if k=='opt': s.eat(); assoc=x; continue
            if k=='label': s.eat(); label=x[1:].strip(); continue
            if k=='arrow':
                s.eat()
                while True:
                    c=s.eat()[1]
                    if s.peek()[1]=='(':
                        s.eat('('); arg=s.eat()[1]; s.eat(')'); c=(c,arg)
                    cmds.append(c)
                    if s.peek()[1]==',': s.eat(); continue
                    break
                continue
            els.append(s.element())
        return Node('seq',els=els,assoc=assoc,label=label,cmds=cmds)
    def element(s):
        k,x=s.peek()
        # label: id (= | +=) element
        if k=='id' and s.i+1<len(s.t) and s.t[s.i+1][1] in('=','+='):
            s.eat(); s.eat(); return s.element()
        e=s.atom()
        while s.peek()[1] in('?','*','+'):
            op=s.eat()[1]
            if s.peek()[1]=='?': raise SyntaxError("non-greedy operators unsupported")
            e=Node({'?':'opt','*':'star','+':'plus'}[op],e=e)
        return e
    def atom(s):
        k,x=s.eat()
        if x=='(':
            a=s.alts(); s.eat(')'); return a
        if x=='~':
            k2,x2=s.eat()
            if k2=='set': return Node('notset',ranges=parse_set(x2[1:-1]))
            if k2=='lit': 
                cs=unesc(x2[1:-1]); assert len(cs)==1; return Node('notset',ranges=[(ord(cs[0]),ord(cs[0]))])
            raise SyntaxError("unsupported ~ operand %r"%x2)
        if k=='lit': return Node('lit',chars=unesc(x[1:-1]),text=x)
        if k=='set': return Node('set',ranges=parse_set(x[1:-1]))
        if x=='.': return Node('any')
        if k=='id': return Node('ref',name=x)
        raise SyntaxError("unexpected %r"%x)
def grammar_path():
    import os
    return os.path.join(os.environ.get("BBV_REPO","/repo"),"src","blackbird.g4")
def read(path=None):
    path=path or grammar_path()
    name,rules=P(lex(open(path).read())).grammar()
    lexer=[r for r in rules if r.name[0].isupper()]
    parser=[r for r in rules if not r.name[0].isupper()]
    return name,lexer,parser
