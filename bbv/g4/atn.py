"""Extraction of the generated artefacts of the current tree: serialised ATNs (Python, C++, .interp),
vocabularies (.tokens, name tables), and rule-function skeletons of the generated parsers."""
import ast
import importlib
import os
import re


def repo():
    return os.environ.get("BBV_REPO", "/repo")


def path(*p):
    return os.path.join(repo(), *p)


# ---------------------------------------------------------------- serialised ATNs

def py_atn_from_source(fname):
    """Decode serializedATN() of a generated Python file *from its source text* (no import)."""
    src = open(fname, encoding="utf-8").read()
    tree = ast.parse(src)
    for node in tree.body:
        if isinstance(node, ast.FunctionDef) and node.name == "serializedATN":
            chunks = []
            for n in ast.walk(node):
                if isinstance(n, ast.Call) and getattr(n.func, "attr", None) == "write":
                    chunks.append((n.lineno, n.col_offset, n.args[0].value))
            return [ord(c) for c in "".join(c for _, _, c in sorted(chunks))]
    raise ValueError("no serializedATN in " + fname)


def py_atn_imported(modname):
    m = importlib.import_module(modname)
    return [ord(c) for c in m.serializedATN()]


def cpp_atn(fname):
    s = open(fname, encoding="utf-8").read()
    segs = re.findall(r"serializedATNSegment(\d+)\[\]\s*=\s*\{(.*?)\};", s, re.S)
    out = []
    for _, body in sorted(segs, key=lambda x: int(x[0])):
        out += [int(x, 16) for x in re.findall(r"0x[0-9a-fA-F]+", body)]
    return out


def interp_sections(fname):
    s = open(fname, encoding="utf-8").read()
    secs = {}
    cur = None
    for line in s.split("\n"):
        m = re.match(r"^(token literal names|token symbolic names|rule names|channel names|mode names|atn):$", line)
        if m:
            cur = m.group(1)
            secs[cur] = []
        elif cur is not None:
            secs[cur].append(line)
    return secs


def interp_atn(fname):
    secs = interp_sections(fname)
    return ast.literal_eval("\n".join(secs["atn"]).strip())


def interp_names(fname):
    secs = interp_sections(fname)
    clean = lambda k: [x for x in secs.get(k, []) if x != ""]
    return {"literal": [None if x == "null" else x for x in clean("token literal names")],
            "symbolic": [None if x == "null" else x for x in clean("token symbolic names")],
            "rules": clean("rule names")}


def tokens_file(fname):
    out = []
    for line in open(fname, encoding="utf-8").read().split("\n"):
        if line.strip():
            k, v = line.rsplit("=", 1)
            out.append((k, int(v)))
    return out


def cpp_name_table(fname, cls, table):
    s = open(fname, encoding="utf-8").read()
    m = re.search(r"std::vector<std::string>\s+%s::%s\s*=\s*\{(.*?)\};" % (cls, table), s, re.S)
    if not m:
        raise ValueError("no %s::%s in %s" % (cls, table, fname))
    return [ast.literal_eval(x) for x in re.findall(r'"(?:\\.|[^"\\])*"', m.group(1))]


# ---------------------------------------------------------------- rule-function skeletons

def py_parser_skeleton(fname):
    """per rule function: ordered list of ('state',n) ('match',TOKEN) ('call',rule) ('predict',n)"""
    src = open(fname, encoding="utf-8").read()
    out = {}
    cur = None
    # a rule function is `def <rule>(self...)` inside class blackbirdParser, containing `self.enterRule(`/enterRecursionRule
    for line in src.split("\n"):
        m = re.match(r"^    def (\w+)\(self(?:, _p:int=0)?\):", line)
        if m:
            cur = m.group(1)
            out[cur] = []
            continue
        if re.match(r"^    class \w+Context\(", line) or re.match(r"^    def (sempred|\w+_sempred)\(", line):
            cur = None
            continue
        if cur is None:
            continue
        for pp_ in re.finditer(r"self\.precpred\(self\._ctx, (\d+)\)", line):
            out[cur].append(("precpred", int(pp_.group(1))))
        for mm in re.finditer(r"self\.state = (\d+)|self\.match\(blackbirdParser\.(\w+)\)|self\.(\w+)\((\d*)\)|adaptivePredict\(self\._input,(\d+),|(self\._input\.LA\(1\))|_la\s*==\s*blackbirdParser\.(\w+)", line):
            if mm.group(6):
                out[cur].append(("la",))          # a lookahead read: a token test after it looks at THIS token
            elif mm.group(7):
                out[cur].append(("test", mm.group(7)))
            elif mm.group(1):
                out[cur].append(("state", int(mm.group(1))))
            elif mm.group(2):
                out[cur].append(("match", mm.group(2)))
            elif mm.group(5):
                out[cur].append(("predict", int(mm.group(5))))
            elif mm.group(3):
                out[cur].append(("call?", mm.group(3), mm.group(4)))
    return out


def cpp_parser_skeleton(fname):
    src = open(fname, encoding="utf-8").read()
    out = {}
    cur = None
    for line in src.split("\n"):
        m = re.match(r"^blackbirdParser::\w+Context\*\s+blackbirdParser::(\w+)\((?:int precedence)?\)\s*\{", line)
        if m:
            cur = m.group(1)
            out[cur] = []
            continue
        if re.match(r"^(bool|void|std::|tree::|size_t|antlrcpp::|blackbirdParser::\w+::|const )", line) or line.startswith("//---"):
            cur = None
            continue
        if cur is None:
            continue
        for pp_ in re.finditer(r"precpred\(_ctx, (\d+)\)", line):
            out[cur].append(("precpred", int(pp_.group(1))))
        for mm in re.finditer(r"setState\((\d+)\)|match\(blackbirdParser::(\w+)\)|(?<![\w:.>])(\w+)\((\d*)\);|adaptivePredict\(_input, (\d+),|(_input->LA\(1\))|_la\s*==\s*blackbirdParser::(\w+)", line):
            if mm.group(6):
                out[cur].append(("la",))
            elif mm.group(7):
                out[cur].append(("test", mm.group(7)))
            elif mm.group(1):
                out[cur].append(("state", int(mm.group(1))))
            elif mm.group(2):
                out[cur].append(("match", mm.group(2)))
            elif mm.group(5):
                out[cur].append(("predict", int(mm.group(5))))
            elif mm.group(3):
                out[cur].append(("call?", mm.group(3), mm.group(4)))
    return out


def normalise_skeleton(sk, rule_names):
    """keep states, matches, predicts, and calls of *rules*; drop every other call"""
    out = {}
    rules = set(rule_names)
    for r, items in sk.items():
        if r not in rules:
            continue
        lst = []
        for it in items:
            if it[0] == "call?":
                if it[1] in rules:
                    lst.append(("call", it[1], it[2] or "0") if it[1] == "expression" else ("call", it[1]))
            else:
                lst.append(it)
        out[r] = lst
    return out
