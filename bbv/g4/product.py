"""Product-automaton exploration: grammar-derived automata vs the deserialised ATNs that the shipped
recognisers execute.

lexer_product():   subset construction of the g4 lexer NFA  x  subset construction of the lexer ATN
                   (rule calls with an explicit return stack) over the partition of Unicode induced by
                   every character-class boundary of either automaton.  In every reachable product
                   state the earliest accepting rule and liveness must coincide.  Longest-match
                   tokenisation is a function of exactly this labelling, so equal labels on all
                   reachable states  =>  equal token streams on every character string.
parser_product():  per parser rule, the rule's EBNF body as an automaton over token/rule names (after
                   ANTLR's left-recursion rewrite for `expression`) x the rule's ATN sub-automaton.
"""
import collections

from antlr4.atn.ATNState import RuleStopState
from antlr4.atn.Transition import Transition

from . import lexnfa, reader

MAXCP = 0x10FFFF
EPS_KINDS = (Transition.EPSILON, Transition.ACTION, Transition.PREDICATE, Transition.PRECEDENCE)


def t_ranges(t):
    k = t.serializationType
    if k == Transition.ATOM:
        return [(t.label_, t.label_)]
    if k == Transition.RANGE:
        return [(t.start, t.stop)]
    if k == Transition.SET:
        return [(r.start, r.stop - 1) for r in t.label.intervals]
    if k == Transition.NOT_SET:
        return lexnfa.complement([(r.start, r.stop - 1) for r in t.label.intervals])
    if k == Transition.WILDCARD:
        return [(0, MAXCP)]
    return None


def lexer_product(lexer_cls, L=None):
    atn = lexer_cls.atn
    L = L or lexnfa.RefLexer()

    def aclosure(cfgs):
        seen = set(cfgs)
        stack = list(cfgs)
        while stack:
            st, stk = stack.pop()
            s = atn.states[st]
            if isinstance(s, RuleStopState):
                if stk:
                    c = (stk[-1], stk[:-1])
                    if c not in seen:
                        seen.add(c)
                        stack.append(c)
                continue
            for t in s.transitions:
                k = t.serializationType
                if k in EPS_KINDS:
                    c = (t.target.stateNumber, stk)
                elif k == Transition.RULE:
                    c = (t.target.stateNumber, stk + (t.followState.stateNumber,))
                else:
                    continue
                if c not in seen:
                    seen.add(c)
                    stack.append(c)
        return frozenset(seen)

    def astep(C, cp):
        out = set()
        for st, stk in C:
            for t in atn.states[st].transitions:
                r = t_ranges(t)
                if r and any(lo <= cp <= hi for lo, hi in r):
                    out.add((t.target.stateNumber, stk))
        return aclosure(out) if out else frozenset()

    def aacc(C):
        best = None
        for st, stk in C:
            s = atn.states[st]
            if isinstance(s, RuleStopState) and not stk:
                if best is None or s.ruleIndex < best:
                    best = s.ruleIndex
        return best

    bounds = {0, MAXCP + 1}
    for edges in L.nfa.edges:
        for ranges, _ in edges:
            for lo, hi in ranges:
                bounds.add(lo)
                bounds.add(hi + 1)
    for s in atn.states:
        if s is None:
            continue
        for t in s.transitions:
            r = t_ranges(t)
            if r:
                for lo, hi in r:
                    bounds.add(lo)
                    bounds.add(hi + 1)
    bs = sorted(bounds)
    reps = [bs[i] for i in range(len(bs) - 1)]
    rulenames = lexer_cls.ruleNames
    # actions attached to rules (skip etc.)
    atn_actions = set()
    for s in atn.states:
        if s is None:
            continue
        for t in s.transitions:
            if t.serializationType == Transition.ACTION:
                atn_actions.add((rulenames[t.ruleIndex], type(atn.lexerActions[t.actionIndex]).__name__))
    g4_actions = set()
    for name, cmds in L.info:
        for c in cmds:
            g4_actions.add((name, {"skip": "LexerSkipAction", "more": "LexerMoreAction"}.get(c, str(c))))
    mism = []
    if atn_actions != g4_actions:
        mism.append(("actions", sorted(g4_actions), sorted(atn_actions)))
    # token rules (non-fragment) must be the same list in the same order as the token types
    g4_tokens = L.names
    A0 = aclosure({(atn.modeToStartState[0].stateNumber, ())})
    start = (L.S0, A0)
    seen = {start: ""}
    q = collections.deque([start])
    trans = 0
    while q:
        S, C = q.popleft()
        w = seen[(S, C)]
        for cp in reps:
            S2 = lexnfa.step(L.nfa, S, cp)
            C2 = astep(C, cp)
            trans += 1
            a1 = lexnfa.acc(L.nfa, S2) if S2 else None
            a2 = aacc(C2) if C2 else None
            n1 = L.names[a1] if a1 is not None else None
            n2 = rulenames[a2] if a2 is not None else None
            if n1 != n2 or bool(S2) != bool(C2):
                mism.append(("label", w + chr(cp), n1, n2, bool(S2), bool(C2)))
            if S2 or C2:
                k = (S2, C2)
                if k not in seen:
                    seen[k] = w + chr(cp)
                    q.append(k)
    return {"states": len(seen), "transitions": trans, "char_classes": len(reps), "mismatches": mism,
            "access_strings": list(seen.values()), "g4_tokens": g4_tokens}


# ---------------------------------------------------------------------------- parser

class _N:
    def __init__(s):
        s.eps = collections.defaultdict(list)
        s.edges = collections.defaultdict(list)
        s.n = 0

    def new(s):
        s.n += 1
        return s.n


def thompson(body):
    n = _N()
    start = n.new()

    def frag(node, a):
        k = node.kind
        if k == "alt":
            end = n.new()
            for s_ in node.alts:
                b = n.new()
                n.eps[a].append(b)
                e = frag(s_, b)
                n.eps[e].append(end)
            return end
        if k == "seq":
            cur = a
            for e in node.els:
                cur = frag(e, cur)
            return cur
        if k == "ref":
            b = n.new()
            n.edges[a].append((node.name, b))
            return b
        if k == "lit":
            b = n.new()
            n.edges[a].append((node.text, b))
            return b
        if k == "opt":
            b = n.new()
            n.eps[a].append(b)
            e = frag(node.e, b)
            end = n.new()
            n.eps[e].append(end)
            n.eps[a].append(end)
            return end
        if k == "star":
            loop = n.new()
            n.eps[a].append(loop)
            b = n.new()
            n.eps[loop].append(b)
            e = frag(node.e, b)
            n.eps[e].append(loop)
            end = n.new()
            n.eps[loop].append(end)
            return end
        if k == "plus":
            b = n.new()
            n.eps[a].append(b)
            e = frag(node.e, b)
            n.eps[e].append(b)
            end = n.new()
            n.eps[e].append(end)
            return end
        raise ValueError(k)
    end = frag(body, start)
    return n, start, end


def lr_rewrite(rule):
    """ANTLR4 left-recursion elimination at the symbol level: (primary alts)(suffix alts)*"""
    prim, suf = [], []
    for a in rule.body.alts:
        if a.els and a.els[0].kind == "ref" and a.els[0].name == rule.name:
            suf.append(reader.Node("seq", els=a.els[1:], assoc=None, label=None, cmds=[]))
        else:
            prim.append(a)
    if not suf:
        return rule.body
    return reader.Node("alt", alts=[reader.Node("seq", els=[reader.Node("alt", alts=prim), reader.Node("star", e=reader.Node("alt", alts=suf))], assoc=None, label=None, cmds=[])])


def parser_product(parser_cls, parser_rules):
    atn = parser_cls.atn
    symname = lambda tt: "EOF" if tt == -1 else parser_cls.symbolicNames[tt]

    def clo(n, S):
        st = set(S)
        stk = list(S)
        while stk:
            s = stk.pop()
            for t in n.eps[s]:
                if t not in st:
                    st.add(t)
                    stk.append(t)
        return frozenset(st)

    def aclo(S):
        st = set(S)
        stk = list(S)
        while stk:
            s = stk.pop()
            if isinstance(atn.states[s], RuleStopState):
                continue
            for t in atn.states[s].transitions:
                if t.serializationType in EPS_KINDS:
                    if t.target.stateNumber not in st:
                        st.add(t.target.stateNumber)
                        stk.append(t.target.stateNumber)
        return frozenset(st)

    def amoves(S):
        mv = collections.defaultdict(set)
        for s in S:
            if isinstance(atn.states[s], RuleStopState):
                continue
            for t in atn.states[s].transitions:
                k = t.serializationType
                if k == Transition.ATOM:
                    mv[symname(t.label_)].add(t.target.stateNumber)
                elif k == Transition.SET:
                    for r in t.label.intervals:
                        for tt in range(r.start, r.stop):
                            mv[symname(tt)].add(t.target.stateNumber)
                elif k == Transition.RULE:
                    mv[parser_cls.ruleNames[t.target.ruleIndex]].add(t.followState.stateNumber)
                elif k in (Transition.NOT_SET, Transition.WILDCARD, Transition.RANGE):
                    mv["<unsupported:%d>" % k].add(t.target.stateNumber)
        return mv

    bad = []
    tot_states = tot_tr = 0
    if [r.name for r in parser_rules] != list(parser_cls.ruleNames):
        bad.append(("rule-order", [r.name for r in parser_rules], list(parser_cls.ruleNames)))
        return {"states": 0, "transitions": 0, "mismatches": bad, "rules": len(parser_rules)}
    for ri, r in enumerate(parser_rules):
        n, s0, end = thompson(lr_rewrite(r))
        stop = atn.ruleToStopState[ri].stateNumber
        start = (clo(n, [s0]), aclo([atn.ruleToStartState[ri].stateNumber]))
        seen = {start: ()}
        q = collections.deque([start])
        while q:
            S, A = q.popleft()
            w = seen[(S, A)]
            if (end in S) != (stop in A):
                bad.append((r.name, w, "accept mismatch"))
            m1 = collections.defaultdict(set)
            for s in S:
                for sym, t in n.edges[s]:
                    m1[sym].add(t)
            m2 = amoves(A)
            for sym in sorted(set(m1) | set(m2)):
                tot_tr += 1
                if (sym in m1) != (sym in m2):
                    bad.append((r.name, w + (sym,), "move mismatch", sym in m1, sym in m2))
                    continue
                k = (clo(n, m1[sym]), aclo(m2[sym]))
                if k not in seen:
                    seen[k] = w + (sym,)
                    q.append(k)
        tot_states += len(seen)
    return {"states": tot_states, "transitions": tot_tr, "mismatches": bad, "rules": len(parser_rules)}


def precedence_check(parser_cls, parser_rules):
    """The precedence predicates / recursive-call precedences in the ATN must be those implied by the
    alternative order and <assoc=right> of the left-recursive rule in the .g4 (ANTLR's documented
    scheme: alternative k of n (1-based, in order) gets precedence n-k+1; a binary alternative is
    guarded by precpred(p) and calls its right operand with p+1 (left assoc) or p (right assoc);
    a prefix alternative calls its operand with its own precedence)."""
    atn = parser_cls.atn
    out = []
    for ri, r in enumerate(parser_rules):
        alts = r.body.alts
        if not any(a.els and a.els[0].kind == "ref" and a.els[0].name == r.name for a in alts):
            continue
        n = len(alts)
        expect_preds = []
        expect_calls = []
        for k, a in enumerate(alts, 1):
            prec = n - k + 1
            leftrec = bool(a.els) and a.els[0].kind == "ref" and a.els[0].name == r.name
            tail_rec = bool(a.els) and a.els[-1].kind == "ref" and a.els[-1].name == r.name
            if leftrec:
                expect_preds.append(prec)
                if tail_rec and len(a.els) > 1:
                    expect_calls.append(prec if (a.assoc and "right" in a.assoc) else prec + 1)
            elif tail_rec:
                expect_calls.append(prec)   # prefix operator
        got_preds = []
        got_calls = []
        for s in atn.states:
            if s is None or s.ruleIndex != ri:
                continue
            for t in s.transitions:
                if t.serializationType == Transition.PRECEDENCE:
                    got_preds.append(t.precedence)
                if t.serializationType == Transition.RULE and t.target.ruleIndex == ri:
                    got_calls.append(t.precedence)
        inner0 = got_calls.count(0)   # calls inside brackets / function arguments / index: precedence 0
        out.append({"rule": r.name, "expect_preds": sorted(expect_preds), "got_preds": sorted(got_preds),
                    "expect_calls": sorted(expect_calls), "got_calls": sorted(c for c in got_calls if c != 0), "calls_prec0": inner0})
    return out


def _elem_tokens(e):
    if e.kind == "ref":
        return {e.name}
    if e.kind == "alt":
        out = set()
        for a in e.alts:
            if len(a.els) != 1:
                return None
            t = _elem_tokens(a.els[0])
            if t is None:
                return None
            out |= t
        return out
    return None


def operator_table(parser_cls, parser_rules):
    """Binds the binding order to the artefacts *per operator*: for every binary / prefix alternative of
    the left-recursive rule, (operator tokens, guarding precedence predicate, precedence passed to the
    right operand) as implied by the .g4 must equal what the ATN contains.
    Returns list of (rule, expected_set, got_set)."""
    atn = parser_cls.atn
    sym = lambda tt: parser_cls.symbolicNames[tt]
    res = []
    for ri, r in enumerate(parser_rules):
        alts = r.body.alts
        if not any(a.els and a.els[0].kind == "ref" and a.els[0].name == r.name for a in alts):
            continue
        n = len(alts)
        expect = set()
        for k, a in enumerate(alts, 1):
            prec = n - k + 1
            leftrec = bool(a.els) and a.els[0].kind == "ref" and a.els[0].name == r.name
            tail = bool(a.els) and a.els[-1].kind == "ref" and a.els[-1].name == r.name
            if leftrec and tail and len(a.els) == 3:
                toks = _elem_tokens(a.els[1])
                expect.add((tuple(sorted(toks or ["?"])), prec, prec if (a.assoc and "right" in a.assoc) else prec + 1))
            elif (not leftrec) and tail and len(a.els) == 2:
                toks = _elem_tokens(a.els[0])
                expect.add((tuple(sorted(toks or ["?"])), None, prec))

        def eps_reach(st, through_pred=False):
            seen = {st}
            stack = [st]
            while stack:
                s_ = stack.pop()
                if isinstance(atn.states[s_], RuleStopState):
                    continue
                for t in atn.states[s_].transitions:
                    k = t.serializationType
                    if k in (Transition.EPSILON, Transition.ACTION, Transition.PREDICATE) or (through_pred and k == Transition.PRECEDENCE):
                        if t.target.stateNumber not in seen:
                            seen.add(t.target.stateNumber)
                            stack.append(t.target.stateNumber)
            return seen

        def consuming(states):
            out = []
            for s_ in states:
                for t in atn.states[s_].transitions:
                    k = t.serializationType
                    if k == Transition.ATOM:
                        out.append(({sym(t.label_)}, t.target.stateNumber))
                    elif k == Transition.SET:
                        out.append(({sym(tt) for iv in t.label.intervals for tt in range(iv.start, iv.stop)}, t.target.stateNumber))
            return out

        def self_calls(states):
            return [t.precedence for s_ in states for t in atn.states[s_].transitions
                    if t.serializationType == Transition.RULE and t.target.ruleIndex == ri]
        got = set()
        for s_ in atn.states:
            if s_ is None or s_.ruleIndex != ri:
                continue
            for t in s_.transitions:
                if t.serializationType == Transition.PRECEDENCE:
                    for toks, tgt in consuming(eps_reach(t.target.stateNumber)):
                        for c in self_calls(eps_reach(tgt)):
                            got.add((tuple(sorted(toks)), t.precedence, c))
        for toks, tgt in consuming(eps_reach(atn.ruleToStartState[ri].stateNumber)):
            for c in self_calls(eps_reach(tgt)):
                if c != 0:
                    got.add((tuple(sorted(toks)), None, c))
        res.append((r.name, sorted(expect, key=repr), sorted(got, key=repr)))
    return res
