"""Syntax oracle (reference tokenizer + Earley recogniser, both derived from the .g4) and the
implementation's syntax stage isolated through its real entry point with a do-nothing listener."""
import re

from . import cfg, lexnfa, reader

LINECOL = re.compile(r"\(line (\d+):(\d+)\)")


class Oracle:
    def __init__(self):
        _, lx, ps = reader.read()
        self.lexer_rules, self.parser_rules = lx, ps
        self.L = lexnfa.RefLexer()
        self.G = cfg.build(ps)
        self.E = cfg.Earley(self.G)

    def tokens(self, text, keep_skipped=False):
        return self.L.tokens(text, keep_skipped)

    def verdict(self, text):
        """('OK', ntokens) or ('BAD', (line, col1), index_of_first_non_viable_token, offset)"""
        toks = self.L.tokens(text)
        ok, bad = self.E.recognize([t[0] for t in toks] + ["EOF"])
        if ok:
            return ("OK", len(toks))
        pos = toks[bad][2] if bad < len(toks) else len(text)
        return ("BAD", linecol(text, pos), bad, pos)


def linecol(text, pos):
    """1-based line (ANTLR counts only \\n) and 1-based column"""
    line = text.count("\n", 0, pos) + 1
    col = pos - (text.rfind("\n", 0, pos) + 1)
    return (line, col + 1)


def linecol_true(text, pos):
    """1-based line counting every line break of the grammar's NEWLINE token (\r\n, \r, \n) and 1-based column"""
    import re
    line = 1
    last = 0
    for m in re.finditer(r"\r\n|\r|\n", text[:pos]):
        if m.end() <= pos:
            line += 1
            last = m.end()
    return (line, pos - last + 1)


def token_starts(text, toks):
    """set of (line, col1) at which a token starts, plus end of input"""
    s = {linecol(text, t[2]) for t in toks}
    s.add(linecol(text, len(text)))
    return s


_null = None


def null_listener():
    global _null
    if _null is None:
        from blackbird.blackbirdListener import blackbirdListener

        class Null(blackbirdListener):
            def __init__(self, cwd=None):
                self.program = None
        _null = Null
    return _null


def syntax_stage(text):
    """('OK',) | ('BSE', (line, col) | None, message) | ('OTHER', type name, message)"""
    import antlr4
    from blackbird.listener import parse
    try:
        parse(antlr4.InputStream(text), listener=null_listener())
        return ("OK",)
    except Exception as e:  # noqa
        if type(e).__name__ == "BlackbirdSyntaxError":
            msg = str(e.args[0]) if e.args else str(e)
            m = LINECOL.search(msg)
            return ("BSE", (int(m.group(1)), int(m.group(2))) if m else None, msg[:160])
        return ("OTHER", type(e).__name__, str(e)[:160])


def full_load(text):
    """outcome class of blackbird.loads: ('PROGRAM',) | ('BSE', pos, msg) | ('OTHER', type, msg)"""
    import blackbird
    from bbv.core import observe
    observe.reset_tables()
    try:
        blackbird.loads(text)
        return ("PROGRAM",)
    except Exception as e:  # noqa
        if type(e).__name__ == "BlackbirdSyntaxError":
            msg = str(e.args[0]) if e.args else str(e)
            m = LINECOL.search(msg)
            return ("BSE", (int(m.group(1)), int(m.group(2))) if m else None, msg[:160])
        return ("OTHER", type(e).__name__, str(e)[:160])
