"""g4 parser rules -> plain CFG -> Earley recognizer with first-error index (prototype)."""
from . import reader as g4
class CFG:
    def __init__(s): s.prods={}; s.n=0
    def fresh(s,base): s.n+=1; return "%s$%d"%(base,s.n)
    def add(s,lhs,rhs): s.prods.setdefault(lhs,[]).append(tuple(rhs))
def build(parser_rules):
    G=CFG()
    def seq(node,base):
        out=[]
        for e in node.els: out.append(el(e,base))
        return out
    def el(e,base):
        k=e.kind
        if k=='ref': return e.name
        if k=='alt':
            if len(e.alts)==1 and len(e.alts[0].els)==1: return el(e.alts[0].els[0],base)
            nt=G.fresh(base)
            for a in e.alts: G.add(nt,seq(a,base))
            return nt
        if k=='opt':
            nt=G.fresh(base); G.add(nt,[]); G.add(nt,[el(e.e,base)]); return nt
        if k=='star':
            nt=G.fresh(base); x=el(e.e,base); G.add(nt,[]); G.add(nt,[nt,x]); return nt
        if k=='plus':
            nt=G.fresh(base); x=el(e.e,base); G.add(nt,[x]); G.add(nt,[nt,x]); return nt
        raise ValueError(k)
    for r in parser_rules:
        for a in r.body.alts: G.add(r.name,seq(a,r.name))
    G.start=parser_rules[0].name
    G.nts=set(G.prods)
    return G
def nullable(G):
    N=set(); ch=True
    while ch:
        ch=False
        for l,ps in G.prods.items():
            if l not in N and any(all(x in N for x in p) for p in ps): N.add(l); ch=True
    return N
class Earley:
    def __init__(s,G): s.G=G; s.N=nullable(G)
    def recognize(s,toks):
        """toks: list of terminal names (EOF included by grammar as 'EOF'). returns (ok, first_bad_index or None)."""
        G=s.G; n=len(toks)
        chart=[set() for _ in range(n+1)]; order=[[] for _ in range(n+1)]
        def add(i,item):
            if item not in chart[i]: chart[i].add(item); order[i].append(item)
        for p in G.prods[G.start]: add(0,(G.start,p,0,0))
        for i in range(n+1):
            j=0
            while j<len(order[i]):
                lhs,p,d,o=order[i][j]; j+=1
                if d<len(p):
                    x=p[d]
                    if x in G.nts:
                        for q in G.prods[x]: add(i,(x,q,0,i))
                        if x in s.N: add(i,(lhs,p,d+1,o))
                    # scan handled below
                else:
                    for (l2,p2,d2,o2) in list(chart[o]):
                        if d2<len(p2) and p2[d2]==lhs: add(i,(l2,p2,d2+1,o2))
            if i<n:
                t=toks[i]
                for (lhs,p,d,o) in order[i]:
                    if d<len(p) and p[d]==t: add(i+1,(lhs,p,d+1,o))
                if not chart[i+1]: return False,i
        ok=any(l==G.start and d==len(p) and o==0 for (l,p,d,o) in chart[n])
        return ok,(None if ok else n)
