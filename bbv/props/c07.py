"""C07  Calling an included program equals inlining it with renamed modes.

Part A: every included program over every 1-/2-/3-subset of {0,1,2,3,8,9,16,17} in every order of first
        use, with 0/1/2 parameters, x every call-site pattern (1-3 calls on different / identical mode
        lists, inside a loop, interleaved with statements and with a second subroutine).
Part B: directory layouts x include-path styles x duplicate include lines x nesting depth 1-3 (inner
        subroutine also called directly, before and after the outer one) x process working directory x
        load() argument style.
Oracle: the reference model's inlining (modes renamed sorted(sub.modes)[k] -> call.modes[k], parameters bound).
"""
import collections
import itertools
import os
import shutil

from bbv.core import pool, observe
from bbv.model import lang, denote
from bbv.model.lang import N, V, B, P, U
from . import common

LEVEL = "exploration"
UNIVERSE = [0, 1, 2, 3, 8, 9, 16, 17]


def sub_ast(name, order, nparams, includes=()):
    """included program touching the modes in `order` (first-use order)"""
    items = []
    first = [P("x")] if nparams >= 1 else [N("0.5")]
    items.append(("stmt", "A", first, [], [N(order[0])], "none"))
    for i in range(1, len(order)):
        args = [B("*", N("2"), P("y"))] if (nparams >= 2 and i == 1) else None
        items.append(("stmt", "B%d" % i, args, [], [N(order[i]), N(order[i - 1])], "sq"))
    if nparams >= 2 and len(order) == 1:
        items.append(("stmt", "C", [B("-", P("y"), P("x"))], [("k", P("x"))], [N(order[0])], "none"))
    if nparams >= 1 and len(order) >= 2:
        items.append(("stmt", "D", [], [("k", B("+", P("x"), N("1")))], [N(order[-1])], "none"))
    return dict(name=name, version="1.0", includes=list(includes), items=items)


def num(s):
    return U("-", N(s[1:])) if s.startswith("-") else N(s)


def call(name, nparams, modes, vals=("0.25", "3")):
    kw = []
    if nparams >= 1:
        kw.append(("x", num(vals[0])))
    if nparams >= 2:
        kw.append(("y", num(vals[1])))
    return ("stmt", name, [] if kw else None, kw, [N(m) if isinstance(m, int) else m for m in modes], "sq" if len(modes) > 1 else "none")


def call_patterns(k, nparams, tier):
    """lists of items for the main program given the subroutine arity k"""
    a = list(range(20, 20 + k))
    b = list(range(30, 30 + k))[::-1]
    c = [5, 4, 7, 6][:k]
    G = lambda m: ("stmt", "G", [N("1")], [], [N(m)], "none")
    pats = [
        [call("Sub", nparams, a)],
        [call("Sub", nparams, b), call("Sub", nparams, a, ("-1.5", "2"))],
        [call("Sub", nparams, a), call("Sub", nparams, a)],
        [G(0), call("Sub", nparams, c), G(4), call("Sub", nparams, b, ("7", "0.5")), G(30)],
        [call("Sub", nparams, a), call("Sub", nparams, b), call("Sub", nparams, c)],
    ]
    if nparams >= 1:
        kwv = lambda e1, e2: ([("x", e1)] + ([("y", e2)] if nparams >= 2 else []))
        loopcall = ("stmt", "Sub", [], kwv(V("i"), B("*", V("i"), N("2"))), [B("+", V("i"), N(j)) for j in range(k)], "sq" if k > 1 else "none")
        pats.append([("for", "int", "i", ("range", 1, 4, None), [loopcall])])
        pats.append([("decl", "float", "v", N("0.5")), ("stmt", "Sub", [], kwv(V("v"), B("-", V("v"), N("1"))), [N(m) for m in a], "sq" if k > 1 else "none"),
                     ("decl", "float", "v", N("2.5")), ("stmt", "Sub", [], kwv(V("v"), B("-", V("v"), N("1"))), [N(m) for m in a], "sq" if k > 1 else "none")])
    # a loop body that mixes ordinary operations with the included one (the order inside every iteration counts)
    G2 = lambda nm, m: ("stmt", nm, [V("i")], [], [m], "none")
    loopsub = ("stmt", "Sub", [] if nparams else None, ([("x", V("i"))] + ([("y", N("2"))] if nparams >= 2 else [])) if nparams else [], [B("+", V("i"), N(j)) for j in range(k)], "sq" if k > 1 else "none")
    pats.append([("for", "int", "i", ("range", 1, 3, None), [G2("Pre", N("0")), loopsub, G2("Post", V("i"))])])
    # a loop that applies the subroutine several times to FIXED modes and arguments (the call does not mention the loop
    # variable): alone in the body, between ordinary operations that do / do not mention it, and over a list of values
    pats.append([("for", "int", "i", ("range", 0, 3, None), [call("Sub", nparams, a)])])
    pats.append([("for", "int", "i", ("range", 0, 2, None), [G2("Pre", N("0")), call("Sub", nparams, c), ("stmt", "Fix", [N("1")], [], [N("3")], "none")]), call("Sub", nparams, b)])
    pats.append([("for", "float", "y", ("list", [N("0.5"), N("1.5")], "sq"), [call("Sub", nparams, b, ("7", "0.5")), call("Sub", nparams, a)])])
    if k == 1:
        pats.append([("for", "int", "i", ("range", 0, 3, None), [call("Sub", nparams, [V("i")])])])
        pats.append([("decl", "int", "n", N("6")), call("Sub", nparams, [B("+", V("n"), N("1"))]), call("Sub", nparams, [V("n")])])
    if k == 2:
        pats.append([("for", "int", "i", ("range", 0, 2, None), [call("Sub", nparams, [V("i"), B("+", V("i"), N("1"))])])])
    return pats


class Files:
    def __init__(self, root):
        self.root = root
        os.makedirs(root, exist_ok=True)

    def write(self, rel, text):
        p = os.path.join(self.root, rel)
        os.makedirs(os.path.dirname(p), exist_ok=True)
        with open(p, "w", encoding="utf-8", newline="") as f:
            f.write(text)
        return p

    def clean(self):
        shutil.rmtree(self.root, ignore_errors=True)


def outcome(path):
    st, p = common.load_file(path)
    return st, p


def judge(main_ast, library, main_path):
    """compare load(main_path) with the model of main_ast (library: include string -> AST)"""
    try:
        m = denote.Model(library).run(main_ast)
    except (denote.Refused, denote.OutOfDomain) as e:
        return ("harness-model-refuses", repr(e))
    st, p = common.load_file(main_path)
    if st == "exc":
        return ("load-raises:" + type(p).__name__, common.exc_sig(p))
    errs = denote.compare(m, p, check_params=True)
    if errs:
        got = [(o["op"], [int(x) for x in o["modes"]]) for o in p.operations]
        want = [(o["op"], o["modes"]) for o in m.ops]
        kinds = sorted(set(e.split("-", 1)[1] if e.startswith("op") else e.split(" ")[0] for e in errs))
        return ("differs:" + "|".join(kinds), "; ".join(errs)[:200] + " got %r want %r" % (got[:8], want[:8]))
    return None


_counter = [0]


def _dir(base):
    _counter[0] += 1
    return os.path.join(base, "w%d" % os.getpid(), "c%d" % _counter[0])


def case_A(c):
    base, order, nparams, pat_idx, tier, second = c
    F = Files(_dir(base))
    try:
        sub = sub_ast("Sub", order, nparams)
        lib = {"sub.xbb": sub}
        incs = ["sub.xbb"]
        items = call_patterns(len(order), nparams, tier)[pat_idx]
        if second:
            oth = sub_ast("Oth", [9, 1], 0)
            lib["oth.xbb"] = oth
            incs.append("oth.xbb")
            F.write("oth.xbb", lang.render(oth))
            items = [call("Oth", 0, [40, 41])] + items + [call("Oth", 0, [3, 2])]
        main = dict(name="M", version="1.0", includes=incs, items=items)
        F.write("sub.xbb", lang.render(sub))
        mp = F.write("main.xbb", lang.render(main))
        os.chdir(F.root)
        r = judge(main, lib, mp)
        if r is None:
            return None
        set_order = list(set(order))
        feature = ""
        if len(items) and sum(1 for it in items if it[0] == "stmt" and it[1] == "Sub") + sum(3 for it in items if it[0] == "for") >= 2 and nparams == 0 and r[0].startswith("load-raises:KeyError"):
            feature = "C07/subroutine-applied-twice"
        elif set_order != sorted(order) and r[0].startswith("differs") and "modes" in r[0]:
            feature = "C07/modes-not-in-iteration-order"
        return (feature or ("C07/" + r[0]), r[1])
    finally:
        os.chdir("/")
        F.clean()


LAYOUTS = {
    # name: (main rel path, sub rel path, include string as written in main)
    "same": ("proj/main.xbb", "proj/sub.xbb", "sub.xbb"),
    "dotslash": ("proj/main.xbb", "proj/sub.xbb", "./sub.xbb"),
    "subdir": ("proj/main.xbb", "proj/lib/sub.xbb", "lib/sub.xbb"),
    "sibling": ("proj/app/main.xbb", "proj/lib/sub.xbb", "../lib/sub.xbb"),
    "deep": ("proj/a/b/main.xbb", "proj/x/y/sub.xbb", "../../x/y/sub.xbb"),
    "absolute": ("proj/main.xbb", "elsewhere/sub.xbb", None),
    # spellings that begin with ./ and go on with .. or a hidden directory
    "dot-dotdot": ("proj/app/main.xbb", "proj/lib/sub.xbb", "./../lib/sub.xbb"),
    "hidden-dir": ("proj/main.xbb", "proj/.hidden/sub.xbb", "./.hidden/sub.xbb"),
    "dotslash-subdir": ("proj/main.xbb", "proj/lib/sub.xbb", "./lib/sub.xbb"),
    "dotdot-twice-dot": ("proj/a/b/main.xbb", "proj/x/sub.xbb", "../.././x/sub.xbb"),
}


def case_B(c):
    base, layout, dup, cwdsel, argstyle, nparams = c
    F = Files(_dir(base))
    try:
        mrel, srel, inc = LAYOUTS[layout]
        if inc is None:
            inc = os.path.join(F.root, srel)
        sub = sub_ast("Sub", [8, 1], nparams)
        incs = [inc]
        if dup == "same":
            incs = [inc, inc]
        elif dup == "other-spelling":
            alt = os.path.join(F.root, srel) if not os.path.isabs(inc) else inc
            if not os.path.isabs(inc) and not inc.startswith("."):
                alt = "./" + inc
            incs = [inc, alt]
        lib = {i: sub for i in incs}
        main = dict(name="M", version="1.0", includes=incs, items=[call("Sub", nparams, [3, 4]), ("stmt", "G", None, [], [N("0")], "none"), call("Sub", nparams, [6, 5], ("2", "-1"))])
        # the included file (and, for template subroutines, the main file) carries non-ASCII comments
        F.write(srel, "# \u03b8 = caf\u00e9\n" + lang.render(sub) + "# \u00bc\n")
        mp = F.write(mrel, lang.render(main) + ("# \u00e9\n" if nparams else ""))
        cwd = {"scriptdir": os.path.dirname(mp), "parent": os.path.dirname(os.path.dirname(mp)), "root": "/", "unrelated": os.path.join(F.root, "unrelated")}[cwdsel]
        os.makedirs(cwd, exist_ok=True)
        # another program under the same relative name, seen from where the process happens to be working
        for inc_ in incs:
            if not os.path.isabs(inc_):
                decoy = os.path.normpath(os.path.join(cwd, inc_))
                if decoy != os.path.normpath(os.path.join(os.path.dirname(mp), inc_)) and decoy.startswith(F.root + os.sep) and not os.path.exists(decoy):
                    F.write(os.path.relpath(decoy, F.root), "name Sub\nversion 1.0\n\nDecoy | 8\nDecoy | 1\n")
        os.chdir(cwd)
        arg = mp if argstyle == "abs" else os.path.relpath(mp, cwd)
        r = judge(main, lib, arg)
        return None if r is None else ("C07/layout-%s" % r[0], "layout=%s dup=%s cwd=%s arg=%s: %s" % (layout, dup, cwdsel, argstyle, r[1]))
    finally:
        os.chdir("/")
        F.clean()


def case_N(c):
    """nesting: main -> mid -> inner (-> leaf), each level in a different directory; inner also called directly"""
    base, depth, direct, cwdsel, argstyle, tmpl = c
    F = Files(_dir(base))
    try:
        np_ = 1 if tmpl else 0
        leaf = sub_ast("Leaf", [2, 0], np_)
        inner = dict(name="Inner", version="1.0", includes=["d/leaf.xbb"] if depth >= 3 else [],
                     items=[("stmt", "I", [P("x")] if np_ else None, [], [N("1")], "none")] + ([call("Leaf", np_, [9, 1], ("0.5", "3"))] if depth >= 3 else []) + [("stmt", "J", None, [], [N("1"), N("9")] if depth >= 3 else [N("1"), N("3")], "sq")])
        mid = dict(name="Mid", version="1.0", includes=["c/inner.xbb"] if depth >= 2 else [],
                   items=([("stmt", "Inner", [] if np_ else None, [("x", N("4"))] if np_ else [], [N("8"), N("0")] if True else [], "sq")] if depth >= 2 else [])
                   + [("stmt", "Z", None, [], [N("0")], "none"), ("stmt", "Y", [P("x")] if np_ else None, [], [N("8"), N("0")], "rd")])
        lib = {"../b/mid.xbb": mid, "c/inner.xbb": inner, "d/leaf.xbb": leaf}
        mid_call = ("stmt", "Mid", [] if np_ else None, [("x", N("7"))] if np_ else [], [N("4"), N("5")], "sq")
        inner_call = ("stmt", "Inner", [] if np_ else None, [("x", num("-2"))] if np_ else [], [N("6"), N("7")], "sq")
        leaf_call = call("Leaf", np_, [10, 11], ("1.5", "3"))
        items = [mid_call]
        if depth >= 2 and direct in ("before", "both"):
            items = [inner_call] + items
        if depth >= 2 and direct in ("after", "both"):
            items = items + [inner_call, mid_call]
        if depth >= 3 and direct != "none":
            items = items + [leaf_call]
        main = dict(name="M", version="1.0", includes=["../b/mid.xbb"], items=items)
        mp = F.write("p/a/main.xbb", lang.render(main))
        F.write("p/b/mid.xbb", lang.render(mid))
        F.write("p/b/c/inner.xbb", lang.render(inner))
        F.write("p/b/c/d/leaf.xbb", lang.render(leaf))
        cwd = {"scriptdir": os.path.dirname(mp), "parent": os.path.join(F.root, "p"), "root": "/", "unrelated": os.path.join(F.root, "p/b/c")}[cwdsel]
        os.chdir(cwd)
        arg = mp if argstyle == "abs" else os.path.relpath(mp, cwd)
        r = judge(main, lib, arg)
        if r is None:
            return None
        key = "C07/nested-%s" % r[0]
        if not np_ and r[0].startswith("load-raises:KeyError"):
            key = "C07/subroutine-applied-twice"
        return (key, "depth=%d direct=%s cwd=%s arg=%s tmpl=%s: %s" % (depth, direct, cwdsel, argstyle, tmpl, r[1]))
    finally:
        os.chdir("/")
        F.clean()


FWD = {
    # how Mid hands its own parameters (m0, m1[, m2]) on to Inner's parameters (x, y[, z])
    2: {"straight": lambda m: (P(m[0]), P(m[1])), "crossed": lambda m: (P(m[1]), P(m[0])), "same": lambda m: (P(m[0]), P(m[0])),
        "expr": lambda m: (B("*", N("2"), P(m[0])), B("+", P(m[0]), P(m[1]))), "const-mix": lambda m: (P(m[1]), N("0.5")),
        "numeric": lambda m: (N("0.25"), N("3")), "crossed-expr": lambda m: (B("-", P(m[1]), N("1")), U("-", P(m[0])))},
    3: {"straight": lambda m: (P(m[0]), P(m[1]), P(m[2])), "cycle": lambda m: (P(m[1]), P(m[2]), P(m[0])), "cycle2": lambda m: (P(m[2]), P(m[0]), P(m[1])),
        "swap01": lambda m: (P(m[1]), P(m[0]), P(m[2])), "swap02": lambda m: (P(m[2]), P(m[1]), P(m[0]))},
}
MID_NAMES = {2: [("x", "y"), ("y", "x"), ("u", "v"), ("y", "w")], 3: [("x", "y", "z"), ("z", "x", "y"), ("u", "v", "w")]}
MAIN_KINDS = ["numeric", "template", "template-crossed", "template-same-names-crossed", "inner-direct-crossed"]


def case_F(c):
    """parameter forwarding through two levels of templates: main -> Mid(m...) -> Inner(x, y[, z])"""
    base, k, fwd, mid_names, main_kind = c
    F = Files(_dir(base))
    try:
        inner_names = ("x", "y", "z")[:k]
        inner_items = [("stmt", "I1", [P("x")], [], [N("1")], "none"),
                       ("stmt", "I2", [P("y")], [("k", B("-", P("x"), B("*", N("3"), P("y"))))], [N("1"), N("0")], "sq")]
        # pairs of arguments that differ only in a constant -1 / -2 (or in a factor -1 / -2)
        inner_items.append(("stmt", "I4", [B("-", P("x"), N("1"))], [("l", U("-", P("y")))], [N("0")], "none"))
        inner_items.append(("stmt", "I5", [B("-", P("x"), N("2"))], [("l", B("*", U("-", N("2")), P("y")))], [N("1")], "none"))
        if k == 3:
            inner_items.append(("stmt", "I3", [B("+", B("*", P("z"), N("4")), P("x"))], [], [N("0")], "none"))
        inner = dict(name="Inner", version="1.0", items=inner_items)
        es = FWD[k][fwd](mid_names)
        mid_items = [("stmt", "M0", [P(mid_names[0])], [], [N("0")], "none"),
                     ("stmt", "Inner", [], list(zip(inner_names, es)), [N("2"), N("5")], "sq")]
        for j, mn in enumerate(mid_names[1:]):
            mid_items.append(("stmt", "M%d" % (j + 1), [B("*", P(mn), N("3"))], [], [N("5")], "none"))
        mid = dict(name="Mid", version="1.0", includes=["inner.xbb"], items=mid_items)
        vals = ("0.5", "-2", "7")[:k]
        if main_kind == "numeric":
            kw = [(mn, num(v)) for mn, v in zip(mid_names, vals)]
        elif main_kind == "template":
            kw = [(mn, P(a)) for mn, a in zip(mid_names, ("a", "b", "c"))]
        elif main_kind == "template-crossed":
            kw = [(mn, P(a)) for mn, a in zip(mid_names, ("b", "c", "a")[:k] if k == 3 else ("b", "a"))]
        elif main_kind == "template-same-names-crossed":
            rot = mid_names[1:] + mid_names[:1]
            kw = [(mn, P(a)) for mn, a in zip(mid_names, rot)]
        else:
            kw = [(mn, num(v)) for mn, v in zip(mid_names, vals)]
        items = [("stmt", "Mid", [], kw, [N("7"), N("3"), N("4")], "sq")]
        if main_kind == "inner-direct-crossed":
            rot = inner_names[1:] + inner_names[:1]
            items.append(("stmt", "Inner", [], [(n_, P(r_)) for n_, r_ in zip(inner_names, rot)], [N("1"), N("0")], "sq"))
            items.append(("stmt", "Mid", [], [(mn, num(v)) for mn, v in zip(mid_names, vals[::-1])], [N("3"), N("7"), N("4")], "sq"))
        main = dict(name="M", version="1.0", includes=["mid.xbb"], items=items)
        lib = {"mid.xbb": mid, "inner.xbb": inner}
        F.write("inner.xbb", lang.render(inner))
        F.write("mid.xbb", lang.render(mid))
        mp = F.write("main.xbb", lang.render(main))
        os.chdir(F.root)
        r = judge(main, lib, mp)
        return None if r is None else ("C07/forwarding-%s" % r[0], "k=%d fwd=%s mid=%s main=%s: %s" % (k, fwd, ",".join(mid_names), main_kind, r[1]))
    finally:
        os.chdir("/")
        F.clean()


GRAPHS = ["gate-named-like-earlier-include", "gate-named-like-later-include", "same-string-nested-then-own", "diamond", "diamond-direct", "util-then-a", "a-then-util", "b-includes-a", "diamond-spellings", "same-string-different-files", "three-levels-shared-leaf"]


def case_D(c):
    """include graphs that are not chains: a file reached along several paths"""
    base, graph, np_, cwdsel, argstyle = c
    F = Files(_dir(base))
    try:
        util = sub_ast("Util", [1, 0], np_)
        ucall = lambda modes, v="0.25": call("Util", np_, modes, (v, "3"))
        a = dict(name="Aa", version="1.0", includes=["util.xbb"], items=[("stmt", "P", None, [], [N("3")], "none"), ucall([3, 2]), ("stmt", "Q", [N("1")], [], [N("2")], "none")])
        b = dict(name="Bb", version="1.0", includes=["util.xbb"], items=[ucall([0, 1], "-1.5"), ("stmt", "R", None, [], [N("1")], "none")])
        acall = ("stmt", "Aa", None, [], [N("4"), N("5")], "sq")
        bcall = ("stmt", "Bb", None, [], [N("6"), N("7")], "sq")
        files = {}
        lib = {}
        if graph in ("diamond", "diamond-direct"):
            files = {"a.xbb": a, "b.xbb": b, "util.xbb": util}
            incs = ["a.xbb", "b.xbb"]
            items = [acall, bcall, acall] + ([ucall([9, 8], "2"), bcall] if graph == "diamond-direct" else [])
        elif graph in ("gate-named-like-earlier-include", "gate-named-like-later-include"):
            # stage.xbb does not include util.xbb: the operations it calls `Util` are ordinary gates of that name, whatever the
            # file that includes stage.xbb has included before or includes afterwards
            stage = dict(name="Stage", version="1.0", items=[("stmt", "Util", None, [], [N("1")], "none"), ("stmt", "Util", [N("0.5")], [("k", N("2"))], [N("0"), N("1")], "sq"), ("stmt", "R", None, [], [N("0")], "none")])
            files = {"util.xbb": util, "stage.xbb": stage}
            incs = ["util.xbb", "stage.xbb"] if graph == "gate-named-like-earlier-include" else ["stage.xbb", "util.xbb"]
            items = [ucall([9, 8], "2"), ("stmt", "Stage", None, [], [N("4"), N("5")], "sq"), ucall([8, 9])]
        elif graph == "util-then-a":
            files = {"a.xbb": a, "util.xbb": util}
            incs = ["util.xbb", "a.xbb"]
            items = [ucall([9, 8], "2"), acall, ucall([8, 9])]
        elif graph == "a-then-util":
            files = {"a.xbb": a, "util.xbb": util}
            incs = ["a.xbb", "util.xbb"]
            items = [acall, ucall([9, 8], "2"), acall]
        elif graph == "b-includes-a":
            b2 = dict(b, includes=["a.xbb", "util.xbb"], items=[("stmt", "Aa", None, [], [N("1"), N("0")], "sq")] + b["items"])
            files = {"a.xbb": a, "b.xbb": b2, "util.xbb": util}
            incs = ["a.xbb", "b.xbb"]
            items = [bcall, acall]
        elif graph == "diamond-spellings":
            a2 = dict(a, includes=["../util.xbb"])
            b2 = dict(b, includes=["./util.xbb"])
            files = {"sub/a.xbb": a2, "b.xbb": b2, "util.xbb": util}
            incs = ["sub/a.xbb", "b.xbb"]
            items = [acall, bcall]
        elif graph == "same-string-different-files":
            u1 = sub_ast("Util", [1, 0], np_)
            u2 = dict(sub_ast("Vtil", [0, 1], np_))
            b2 = dict(b, items=[call("Vtil", np_, [0, 1], ("-1.5", "3")), ("stmt", "R", None, [], [N("1")], "none")])
            files = {"x/a.xbb": a, "x/util.xbb": u1, "y/b.xbb": b2, "y/util.xbb": u2}
            lib[("Aa", "util.xbb")] = u1
            lib[("Bb", "util.xbb")] = u2
            incs = ["x/a.xbb", "y/b.xbb"]
            items = [acall, bcall, acall]
        elif graph == "same-string-nested-then-own":
            # lib/outer.xbb includes ITS util.xbb (program Vtil); main then includes its OWN util.xbb (program Util): same string, two files
            u_lib = dict(sub_ast("Vtil", [0, 1], np_))
            outer = dict(name="Outer", version="1.0", includes=["util.xbb"], items=[call("Vtil", np_, [1, 0], ("-1.5", "3")), ("stmt", "R", None, [], [N("1")], "none")])
            files = {"lib/outer.xbb": outer, "lib/util.xbb": u_lib, "util.xbb": util}
            lib[("Outer", "util.xbb")] = u_lib
            lib[("M", "util.xbb")] = util
            incs = ["lib/outer.xbb", "util.xbb"]
            items = [("stmt", "Outer", None, [], [N("6"), N("7")], "sq"), ucall([9, 8], "2"), call("Vtil", np_, [3, 2], ("0.5", "3"))]
        elif graph == "three-levels-shared-leaf":
            top = dict(name="Top", version="1.0", includes=["a.xbb", "util.xbb"], items=[("stmt", "Aa", None, [], [N("1"), N("0")], "sq"), ucall([0, 1], "4")])
            files = {"a.xbb": a, "top.xbb": top, "util.xbb": util, "b.xbb": b}
            incs = ["b.xbb", "top.xbb"]
            items = [("stmt", "Top", None, [], [N("4"), N("5")], "sq"), bcall, acall]
        for rel, ast_ in files.items():
            F.write(os.path.join("proj", rel), lang.render(ast_))
        for rel, ast_ in files.items():
            lib.setdefault(rel, ast_)
        lib.setdefault("util.xbb", util)
        lib.setdefault("../util.xbb", util)
        lib.setdefault("./util.xbb", util)
        lib.setdefault("a.xbb", a)
        main = dict(name="M", version="1.0", includes=incs, items=items)
        mp = F.write("proj/main.xbb", lang.render(main))
        cwd = {"scriptdir": os.path.dirname(mp), "root": "/", "unrelated": os.path.join(F.root, "proj", "y2")}[cwdsel]
        os.makedirs(cwd, exist_ok=True)
        os.chdir(cwd)
        arg = mp if argstyle == "abs" else os.path.relpath(mp, cwd)
        r = judge(main, lib, arg)
        return None if r is None else ("C07/include-graph-%s" % r[0], "graph=%s params=%d cwd=%s arg=%s: %s" % (graph, np_, cwdsel, argstyle, r[1]))
    finally:
        os.chdir("/")
        F.clean()


REG_EXPRS = [lambda: B("-", B("*", N("2"), lang.Q(0)), B("/", lang.Q(3), N("4"))), lambda: lang.Q(1), lambda: B("+", B("*", lang.Q(0), lang.Q(5)), N("1")), lambda: U("-", lang.Q(3))]


def case_R(c):
    """measured-register expressions as the values of an include call's keyword arguments: the inlined operations
    carry them (as register transforms), for bare parameters and for expressions of parameters, directly and handed
    on through a second template"""
    base, form, nest, e1, e2, twice = c
    F = Files(_dir(base))
    try:
        if form == "bare":
            inner_items = [("stmt", "Z", [P("g")], [], [N("0")], "none"), ("stmt", "X", [N("0.5")], [("k", P("g")), ("l", P("h"))], [N("1")], "none"), ("stmt", "Y", [P("h"), N("2")], [], [N("1"), N("0")], "sq")]
        else:
            inner_items = [("stmt", "Z", [B("+", B("*", N("2"), P("g")), N("1"))], [], [N("0")], "none"), ("stmt", "X", [P("h")], [("k", B("-", P("g"), B("*", N("3"), P("h"))))], [N("1")], "none")]
        inner = dict(name="Inner", version="1.0", items=inner_items)
        lib = {"inner.xbb": inner}
        F.write("inner.xbb", lang.render(inner))
        callee = "Inner"
        incs = ["inner.xbb"]
        if nest:
            mid = dict(name="Mid", version="1.0", includes=["inner.xbb"], items=[("stmt", "M", None, [], [N("0")], "none"), ("stmt", "Inner", [], [("g", P("h")), ("h", P("g"))], [N("1"), N("0")], "sq")])
            lib["mid.xbb"] = mid
            F.write("mid.xbb", lang.render(mid))
            callee = "Mid"
            incs = ["mid.xbb"]
        A_, B_ = REG_EXPRS[e1](), REG_EXPRS[e2]()
        items = [("stmt", "MeasureX", None, [], [N("0")], "none"), ("stmt", callee, [], [("g", A_), ("h", B_)], [N("4"), N("6")], "sq")]
        if twice:
            items += [("stmt", "G", [A_], [], [N("2")], "none"), ("stmt", callee, [], [("g", B_), ("h", N("0.25"))], [N("6"), N("4")], "sq")]
        main = dict(name="M", version="1.0", includes=incs, items=items)
        mp = F.write("main.xbb", lang.render(main))
        os.chdir(F.root)
        r = judge(main, lib, mp)
        if r is None:
            return None
        if form == "expr" and r[0] == "load-raises:TypeError" and "RegRefTransform" in r[1]:
            return ("C07/register-expression-bound-inside-an-expression", "form=%s nest=%s: %s" % (form, nest, r[1]))
        return ("C07/register-arguments-%s" % r[0], "form=%s nest=%s exprs=%d,%d twice=%s: %s" % (form, nest, e1, e2, twice, r[1]))
    finally:
        os.chdir("/")
        F.clean()


FAM = {"A": case_A, "B": case_B, "N": case_N, "F": case_F, "D": case_D, "R": case_R}


@common.guarded("C07")
def _case(c):
    return FAM[c[0]](c[1])


def build(ctx, base):
    cases = []
    for k in ((1, 2, 3) if ctx.quick else (1, 2, 3, 4)):
        for subset in itertools.combinations(UNIVERSE, k):
            for order in itertools.permutations(subset):
                if k == 4 and order[0] != min(order) and order[-1] != min(order):
                    continue        # 4 modes: orders that start or end with the smallest mode (720 of 1680 orders)
                for nparams in (0, 1, 2):
                    npat = len(call_patterns(k, nparams, ctx.tier))
                    for pi in range(npat):
                        if ctx.quick and k == 3 and pi not in (1, 3) and order != tuple(sorted(order))[::-1]:
                            continue
                        cases.append(("A", (base, list(order), nparams, pi, ctx.tier, False)))
                    if k <= 2 or not ctx.quick:
                        cases.append(("A", (base, list(order), nparams, 1, ctx.tier, True)))
    for layout, dup, cwdsel, argstyle, nparams in itertools.product(LAYOUTS, ("no", "same", "other-spelling"), ("scriptdir", "parent", "root", "unrelated"), ("abs", "rel"), (0, 1)):
        cases.append(("B", (base, layout, dup, cwdsel, argstyle, nparams)))
    for depth, direct, cwdsel, argstyle, tmpl in itertools.product((1, 2, 3), ("none", "before", "after", "both"), ("scriptdir", "parent", "root", "unrelated"), ("abs", "rel"), (False, True)):
        if depth == 1 and direct != "none":
            continue
        cases.append(("N", (base, depth, direct, cwdsel, argstyle, tmpl)))
    for k in (2, 3):
        for fwd, mid_names, main_kind in itertools.product(FWD[k], MID_NAMES[k], MAIN_KINDS):
            cases.append(("F", (base, k, fwd, mid_names, main_kind)))
    for form, nest, e1, e2, twice in itertools.product(("bare", "expr"), (False, True), range(len(REG_EXPRS)), range(len(REG_EXPRS)), (False, True)):
        cases.append(("R", (base, form, nest, e1, e2, twice)))
    for graph, np_, cwdsel, argstyle in itertools.product(GRAPHS, (0, 1), ("scriptdir", "root", "unrelated"), ("abs", "rel")):
        cases.append(("D", (base, graph, np_, cwdsel, argstyle)))
    return cases


def run(ctx):
    base = os.path.join(ctx.scratch, "c07")
    cases = common.shard(build(ctx, base), ctx.seed)
    res = pool.pmap(_case, cases, chunk=20)
    Vs = common.Violations(keep=6)
    fam = collections.Counter()
    for c, r in zip(cases, res):
        fam[c[0]] += 1
        if r == "TIMEOUT":
            Vs.add("C07/no-outcome", {"case": repr((c[0], ("BASE",) + tuple(c[1][1:])))}, "timeout")
        elif r is not None:
            Vs.add(r[0], {"case": repr((c[0], ("BASE",) + tuple(c[1][1:])))}, r[1])
    unsorted_iter = sum(1 for c in cases if c[0] == "A" and list(set(c[1][1])) != sorted(c[1][1]))
    cov = {"evaluations": len(cases), "distinct_nontrivial": len(cases),
           "rule": "A: included programs over every 1-/2-/3-subset of {0,1,2,3,8,9,16,17} x every order of first use x 0/1/2 parameters x call-site patterns (1-3 calls, identical / different mode lists, in a loop, "
                   "interleaved with statements, with a second subroutine); B: 6 directory layouts x {single, duplicate, differently spelt duplicate} include line x 4 working directories x {absolute, relative} load argument x {plain, template}; "
                   "N: nesting depth 1-3 with the inner subroutine also called directly {never, before, after, both} x 4 cwds x 2 argument styles x {plain, template}; "
                   "F: two levels of templates, the middle one handing its 2-3 parameters on to the inner one in every pattern (straight, crossed, cyclic, repeated, inside expressions, mixed with constants) x parameter names shared / rotated / disjoint between the levels x main program numeric / template / crossed; "
                   "R: measured-register expressions as values of an include call's keyword arguments (bare parameters / expressions of parameters in the template x direct / through a second template x 4x4 expressions x once / twice); D: include graphs that are not chains (diamond, shared leaf at several levels, a file included directly and indirectly in both orders, differently spelt paths to one file, one path string naming different files) x plain/template x 3 cwds x 2 argument styles. every case calls an included program (non-trivial); distinct by construction",
           "samples": [repr((c[0],) + tuple(c[1][1:])) for c in common.sample(cases, 5)], "exhaustive": True, "by_family": dict(fam),
           "cases_where_set_iteration_order_is_not_increasing": unsorted_iter}
    return {"coverage": cov, "violations": Vs.records(),
            "assumptions": ["register references inside included programs are not generated (the property does not say how they are renamed); register expressions as call arguments are (family R)", "positional arguments of include calls are not generated"]}


def replay(case):
    import ast
    import tempfile
    fam, args = ast.literal_eval(case["case"])
    d = tempfile.mkdtemp(prefix="bbv-c07r-")
    try:
        r = FAM[fam]((d,) + tuple(args[1:]))
    finally:
        shutil.rmtree(d, ignore_errors=True)
    import re
    return (r is not None), re.sub(re.escape(d) + r"(/w\d+/c\d+)?", "<TMP>", repr(r))
