"""C17  Template matching inverts instantiation, independent of commuting order.

Templates of 1-3 (thorough 4) operations over modes {0,1,2}, each positional argument a constant or affine
in one parameter (parameters repeated across operations).  For each template x assignment: the instance and
ALL its reorderings that preserve per-mode order (all linear extensions of the dependency relation) must
match, return exactly the template's parameters, and re-instantiating with the returned values must
reproduce every argument; every single structural edit (gate, mode, reversed mode list, swap of adjacent
dependent operations, dropped/duplicated operation, version, target) must raise TemplateError unless a
brute-force reference search shows the edited program is still an instance.
"""
import ast as pyast
import collections
import copy
import itertools

from bbv.core import pool
from . import common

LEVEL = "exploration"
H = "name a\nversion 1.0\ntarget g\n\n"
H0 = "name a\nversion 0.5\n\n"     # template without a target, and with a version that is not the default
FORMS = ["{P}", "-{P}", "2*{P}", "{P}+1", "2*{P}-1", "{P}/2", "1-{P}", "0.1*{P}", "0.75"]
GATES = [("G", [0]), ("H", [1]), ("K", [0, 1]), ("G", [2]), ("K", [1, 2]), ("G", [1]), ("K", [1, 0])]
VALUE_CLASSES = {"dyadic": [0.5, -1.25], "integer": [2, 7], "generic": [0.1, 1 / 3], "generic2": [1e-3, 3.141592653589793], "large": [123.456, -0.7],
                 "negative": [-1 / 3, -3.141592653589793], "negative2": [-0.321, -4.821], "negative-integer": [-3, -11],
                 "small": [-4.1234567891234e-05, 3.3333333333333e-07], "huge": [6.0221407612345e+23, -1.6021766341234e+19]}
# two-argument operations: a constant before / after the parametrised argument, and two parametrised arguments
FORMS2 = [("0.45", "{P}"), ("0.785", "2*{P}-1"), ("{P}", "0.75"), ("{P}/2", "0.1"), ("1", "-{P}"), ("-0.5", "{P}+1"), ("2", "0.1*{P}")]


def wires(m):
    return set(m)


def dep(ops):
    n = len(ops)
    return [[i < j and bool(wires(ops[i][1]) & wires(ops[j][1])) for j in range(n)] for i in range(n)]


def linext(n, d):
    for perm in itertools.permutations(range(n)):
        pos = {v: i for i, v in enumerate(perm)}
        if all(pos[i] < pos[j] for i in range(n) for j in range(n) if d[i][j]):
            yield perm


def edges(ops):
    """reference dependency edges: consecutive operations on each wire"""
    E = set()
    last = {}
    for i, (_, m) in enumerate(ops):
        for q in m:
            if q in last:
                E.add((last[q], i))
            last[q] = i
    return E


def ref_instance_possible(tops, pops):
    """brute force: is there a label- and edge-preserving bijection template ops -> program ops?"""
    n = len(tops)
    if n != len(pops):
        return False
    Et, Ep = edges(tops), edges(pops)
    for f in itertools.permutations(range(n)):
        if all(tops[i][0] == pops[f[i]][0] and list(tops[i][1]) == list(pops[f[i]][1]) for i in range(n)):
            if {(f[a], f[b]) for a, b in Et} == Ep:
                return True
    return False


def body(gs, fs, ps):
    txt = lambda f, p: ", ".join(x.replace("P", p) for x in f) if isinstance(f, tuple) else f.replace("P", p)
    return "".join("%s(%s) | %s\n" % (g, txt(f, p), m if len(m) > 1 else m[0]) for (g, m), f, p in zip(gs, fs, ps))


def check_match(t, q, names, inst_args, label):
    """match t against program q; expect success reproducing inst_args (list of arg lists in q's order)"""
    import numpy as np
    from blackbird.utils import match_template, TemplateError
    try:
        r = match_template(t, q)
    except TemplateError as e:
        return ("refused-instance:%s" % common.msgclass(e), "%s: TemplateError %s" % (label, str(e)[:120]))
    except Exception as e:  # noqa
        return ("match-raises:" + type(e).__name__, "%s: %s" % (label, common.exc_sig(e)))
    if set(r) != set(names):
        return ("wrong-parameter-set", "%s: returned %r, template parameters %r" % (label, sorted(r), sorted(names)))
    try:
        back = t(**r)
    except Exception as e:  # noqa
        return ("returned-values-unusable:" + type(e).__name__, "%s: %r" % (label, r))
    # compare argument multisets per (gate, modes) in program order of the template
    want = collections.defaultdict(list)
    for o in q.operations:
        want[(o["op"], tuple(o["modes"]))].append([complex(x) for x in o.get("args", [])])
    got = collections.defaultdict(list)
    for o in back.operations:
        got[(o["op"], tuple(o["modes"]))].append([complex(x) for x in o.get("args", [])])
    for k in want:
        num = lambda lst: [(float("%.6e" % z.real), float("%.6e" % z.imag)) for z in lst]
        a = sorted(want[k], key=num)
        b = sorted(got.get(k, []), key=num)
        if len(a) != len(b) or not all(len(x) == len(y) and all(abs(u - v) <= 1e-9 * abs(u) + 1e-300 for u, v in zip(x, y)) for x, y in zip(a, b)):
            return ("returned-values-do-not-reproduce", "%s: returned %r gives %r, program has %r" % (label, r, dict(got), dict(want)))
    return None


def respell(modes):
    """another mode list whose numbers, written one after the other, give the same digit string ([1, 12] -> [11, 2])"""
    if len(modes) != 2:
        return None
    d = "".join(str(m) for m in modes)
    for k in range(1, len(d)):
        a, b = d[:k], d[k:]
        if (a == "0" or not a.startswith("0")) and (b == "0" or not b.startswith("0")) and [int(a), int(b)] != list(modes):
            return [int(a), int(b)]
    return None


def case(c):
    import blackbird
    from blackbird.utils import match_template, TemplateError
    gs, fs, ps, vals, do_edits = c
    notarget = (len(gs) + len("".join(f if isinstance(f, str) else "".join(f) for f in fs)) + len(ps)) % 4 == 0     # a deterministic quarter of the templates has no target
    src = (H0 if notarget else H) + body(gs, fs, ps)
    st, t = common.loads(src)
    if st == "exc":
        return [("C17/harness-template-does-not-load", common.exc_sig(t))], 0
    if not t.is_template():
        return [], 0
    names = sorted(t.parameters)
    v = {nm: vals[i % len(vals)] for i, nm in enumerate(names)}
    inst = t(**v)
    n = len(gs)
    out = []
    nmatch = 0
    base_ops = [copy.deepcopy(o) for o in inst.operations]
    tops = [(g, m) for g, m in gs]
    for perm in linext(n, dep(tops)):
        q = copy.deepcopy(inst)
        q.operations[:] = [copy.deepcopy(base_ops[i]) for i in perm]
        nmatch += 1
        r = check_match(t, q, names, None, "reordering %r of %s with %r" % (list(perm), src.split(chr(10) * 2, 1)[1].replace("\n", " / "), v))
        if r:
            out.append(("C17/" + r[0], r[1]))
            break
    # the same instance with its numbers written another way: integral floats as Python ints (what a script that says
    # `G(1) | 0` loads as), Python numbers as NumPy scalars (what computed arguments load as), ints as floats
    import numpy as np
    retype = (("ints-where-integral", lambda x: int(x) if isinstance(x, float) and x.is_integer() and abs(x) < 2 ** 53 else x),
              ("numpy-scalars", lambda x: np.float64(x) if isinstance(x, float) else (np.int64(x) if isinstance(x, int) and not isinstance(x, bool) and abs(x) < 2 ** 62 else x)),
              ("floats", lambda x: float(x) if isinstance(x, (int, np.integer)) and not isinstance(x, bool) and abs(int(x)) < 2 ** 53 else x))
    for tag, conv in retype:
        q = copy.deepcopy(inst)
        changed = False
        for o in q.operations:
            if o.get("args"):
                new = [conv(x) for x in o["args"]]
                changed = changed or any(type(a) is not type(b) for a, b in zip(new, o["args"]))
                o["args"] = new
        if not changed or out:
            continue
        nmatch += 1
        r = check_match(t, q, names, None, "instance with %s of %s with %r" % (tag, src.split(chr(10) * 2, 1)[1].replace("\n", " / "), v))
        if r:
            out.append(("C17/" + r[0] + ":" + tag, r[1]))
            break
    if do_edits:
        def edited(f):
            q = copy.deepcopy(inst)
            f(q)
            return q
        edits = []
        for i in range(n):
            edits.append(("rename-gate", lambda q, i=i: q.operations[i].__setitem__("op", "Zz")))
            edits.append(("change-mode", lambda q, i=i: q.operations[i].__setitem__("modes", [(q.operations[i]["modes"][0] + 1) % 3] + q.operations[i]["modes"][1:] if len(q.operations[i]["modes"]) == 1 else [q.operations[i]["modes"][0], 3 - sum(q.operations[i]["modes"])])))
            if len(gs[i][1]) == 2:
                edits.append(("reverse-modes", lambda q, i=i: q.operations[i].__setitem__("modes", q.operations[i]["modes"][::-1])))
            alt = respell(gs[i][1])
            if alt:
                edits.append(("same-digits-other-modes", lambda q, i=i, alt=alt: q.operations[i].__setitem__("modes", list(alt))))
            edits.append(("drop-operation", lambda q, i=i: q.operations.pop(i)))
            edits.append(("duplicate-operation", lambda q, i=i: q.operations.insert(i, copy.deepcopy(q.operations[i]))))
            if i + 1 < n and wires(gs[i][1]) & wires(gs[i + 1][1]):
                edits.append(("swap-adjacent-dependent", lambda q, i=i: q.operations.__setitem__(slice(i, i + 2), [q.operations[i + 1], q.operations[i]])))
        edits.append(("change-version", lambda q: setattr(q, "_version", "1.1")))
        edits.append(("change-version-same-number", lambda q: setattr(q, "_version", q.version + "0")))
        edits.append(("change-target", lambda q: q.target.__setitem__("name", "other")))
        edits.append(("remove-or-add-target", lambda q: q.target.__setitem__("name", None if q.target.get("name") else "g")))
        for ne, (name, f) in enumerate(edits):
            # the edit is applied to a program that has ALREADY been matched successfully (in place, or on a deep copy
            # of the matched object): anything remembered from the first match must not survive the edit
            # two edits in three work on a deep copy of the instance, the third on a FRESH instance edited in place
            # (what an instance shares with its template, an in-place edit would change in the template too)
            q = copy.deepcopy(inst) if ne % 3 != 2 else t(**v)
            if ne % 3 != 2:
                try:
                    match_template(t, q)
                except Exception:  # noqa  (reported by the reordering part above)
                    pass
                if ne % 3 == 1:
                    q = copy.deepcopy(q)
            f(q)
            if name.startswith("change-version") and q.version == t.version:
                continue      # the edit had no effect (internal attribute renamed): nothing to check
            if name in ("change-target", "remove-or-add-target") and q.target.get("name") == t.target.get("name"):
                continue
            pops = [(o["op"], list(o["modes"])) for o in q.operations]
            still = name not in ("change-version", "change-version-same-number", "change-target", "remove-or-add-target") and ref_instance_possible(tops, pops)
            nmatch += 1
            try:
                r = match_template(t, q)
                if not still:
                    out.append(("C17/edit-accepted:" + name, "%s on %s accepted, returned %r" % (name, src.split(chr(10) * 2, 1)[1].replace("\n", " / "), r)))
            except TemplateError:
                pass
            except Exception as e:  # noqa
                out.append(("C17/edit-wrong-exception:%s:%s" % (name, type(e).__name__), "%s on %s: %s" % (name, src.split(chr(10) * 2, 1)[1].replace("\n", " / "), common.exc_sig(e))))
    return out, nmatch


def _case(c):
    return case(c)


def build(ctx):
    cases = []
    sizes = (1, 2, 3) if ctx.quick else (1, 2, 3, 4)
    gates = GATES[:5] if ctx.quick else GATES
    classes = list(VALUE_CLASSES.items())
    k = 0
    for n in sizes:
        small = ["{P}", "2*{P}-1", "0.1*{P}", "0.75"]
        if ctx.quick:
            gsel = gates if n <= 2 else gates[:3]
            fsel = FORMS if n <= 2 else small
        else:
            gsel = gates if n <= 2 else (gates[:5] if n == 3 else gates[:3])
            fsel = FORMS if n <= 2 else (FORMS[:5] + FORMS[7:] if n == 3 else small)
        for gs in itertools.product(gsel, repeat=n):
            for fs in itertools.product(fsel, repeat=n):
                if all("P" not in f for f in fs):
                    continue
                for ps in itertools.product("ab", repeat=n):
                    used = [p for p, f in zip(ps, fs) if "P" in f]
                    if "b" in used and "a" not in used:
                        continue
                    if used and used[0] != "a":
                        continue
                    k += 1
                    cname, vals = classes[k % len(classes)]
                    cases.append((gs, fs, ps, vals, (n <= 2 and (ctx.quick is False or k % 2 == 0)) or (n > 2 and k % 8 == 0)))
    # deep structure: ALL gate/mode sequences of 4-5 (thorough 6) operations over 2 modes and 5 gate kinds (and, thorough, 5 operations
    # over 3 modes and 6 kinds); one parameter, constants elsewhere - what varies is the shape of the dependency graph
    two = [("R", [0]), ("R", [1]), ("BS", [0, 1]), ("S", [0]), ("D", [1])]     # gate names on either side of the repeated name, one per mode
    three = two + [("BS", [1, 2]), ("R", [2])]
    fams = [(two, 4), (two, 5)] if ctx.quick else [(two, 4), (two, 5), (two, 6), (three, 5)]
    for gset, n in fams:
        for gs in itertools.product(gset, repeat=n):
            if len({tuple(m) for _, m in gs}) < 2:
                continue
            fs = ("{P}",) + ("0.75",) * (n - 1)
            cases.append((gs, fs, ("a",) * n, VALUE_CLASSES["dyadic"], False))
    # mode numbers of several digits (written one after the other, [1, 12] and [11, 2] give the same digits): every edit, and
    # the edit 'same digits, other modes'
    wide = [("K", [1, 12]), ("K", [11, 2]), ("G", [1]), ("G", [12]), ("M", [12, 1]), ("K", [2, 11]), ("K", [10, 1])]
    for n in (1, 2):
        for gs in itertools.product(wide, repeat=n):
            cases.append((gs, ("{P}",) + ("0.75",) * (n - 1), ("a",) * n, VALUE_CLASSES["dyadic"], True))
    # every value class on the templates that repeat a parameter (where re-solved values must be consistent)
    for (cname, vals), fs in itertools.product(classes, itertools.product(FORMS[:8], repeat=2)):
        cases.append((((("G", [0]), ("H", [1]))), fs, ("a", "a"), vals, False))
        cases.append((((("G", [0]), ("K", [0, 1]))), fs, ("a", "a"), vals[::-1], False))
    # operations with two positional arguments (a constant next to a parametrised one, in both orders)
    for i, f2 in enumerate(FORMS2):
        for g in FORMS[:8:2] + ["0.75"]:
            for (cname, vals) in classes:
                cases.append(((("G", [0]), ("K", [0, 1])), (f2, g), ("a", "b"), vals, i == 0))
                cases.append(((("K", [1, 0]), ("G", [1])), (g, f2), ("a", "a"), vals[::-1], False))
    # parameter names: names that mean something to SymPy or to the host language, and look-alikes of other tokens
    # (all plain NAME tokens of the grammar); each with every affine form, alone, repeated and next to the following name
    for i, nm in enumerate(HOST_NAMES):
        nxt = HOST_NAMES[(i + 1) % len(HOST_NAMES)]
        for f in FORMS[:8]:
            for g in ("{P}", "2*{P}-1"):
                vals = classes[(i + len(f)) % len(classes)][1]
                cases.append(((("G", [0]), ("H", [1])), (f, g), (nm, nxt), vals, False))
                cases.append(((("G", [0]), ("K", [0, 1])), (g, f), (nm, nm), vals[::-1], f == "{P}"))
    return cases


HOST_NAMES = ["lambda", "beta", "gamma", "zeta", "E", "I", "S", "N", "Q", "re", "im", "erf", "oo", "None", "is", "O", "C", "x1", "a_1", "q1a", "pix", "sqrt2", "p0"]


def run(ctx):
    cases = common.shard(build(ctx), ctx.seed)
    res = pool.pmap(_case, cases, chunk=20)
    Vs = common.Violations(keep=5)
    matches = 0
    for c, r in zip(cases, res):
        if r == "TIMEOUT":
            Vs.add("C17/no-outcome", {"case": repr(c)}, "timeout")
            continue
        viol, nm = r
        matches += nm
        for k, d in viol:
            Vs.add(k, {"case": repr(c)}, d)
    cov = {"evaluations": matches, "distinct_nontrivial": len(cases),
           "rule": "templates = gate/mode sequence (1-3, thorough 4 operations over modes {0,1,2}, gate names partly repeated) x argument form per operation (8 affine single-parameter forms + a constant) x parameter per operation from {a,b}; "
                   "%d parameter names that mean something to SymPy / Python or look like other tokens x every form; value class rotated over {dyadic, integer, generic, generic2, large} per template, all classes on the templates that repeat a parameter; for each: every linear extension of the dependency order, and every single structural edit. "
                   "evaluations = match_template calls; non-trivial = template x assignment with >=1 parameter; distinct by construction" % len(HOST_NAMES),
           "samples": [body(c[0], c[1], c[2]) for c in common.sample(cases, 5)], "exhaustive": True, "templates": len(cases)}
    return {"coverage": cov, "violations": Vs.records(),
            "assumptions": ["an edited program is expected to be refused only if a brute-force search finds no label- and order-preserving bijection (otherwise it is still an instance)", "arguments compared to 1e-9 relative"]}


def replay(case_):
    c = pyast.literal_eval(case_["case"])
    viol, _ = case(c)
    return bool(viol), repr(viol)[:400]
