"""C04  Instantiating a template equals substituting values into its text.

Differential oracle without hand-written expectations:  loads(S)(**v)  vs  loads(S[{p} := "(" + repr(v_p) + ")"])
(whole-array parameters are substituted by literal rows): same operations and variables (values to 1e-9
relative, arrays element-wise, int/float kind and array dtype not compared).  Plus: reported parameters are
exactly the written names (array-valued ones expanded P_i_j), is_template iff non-empty, the instance has no
parameters, omitting any parameter raises ValueError.
"""
import ast as pyast
import collections
import itertools
import re

from bbv.core import pool, observe
from . import common

LEVEL = "exploration"
H = "name a\nversion 1.0\n\n"
HEADERS = [H, "name tmpl_2\nversion 0.7\ntarget g (shots=10)\n\n", "name t\nversion 1.10\ntype other (k=2)\n\n", "name t\nversion 2.5\ntarget X8_01\ntype tdm (temporal_modes=2)\n\n"]


def header_for(src):
    """deterministic choice of the metadata block from the source text (every 4th case gets each header)"""
    return HEADERS[sum(map(ord, src)) % len(HEADERS)]

FORMS = ["{a}", "-{a}", "2*{a}", "{a}+1", "{a}*{b}", "{a}-2*{b}", "{a}/{b}", "{a}**2", "1/{a}", "{a}+{b}*{a}", "{a}*pi", "{a}/3", "({a}+{b})*({a}-{b})", "0.5*{a}-{b}/4"]
FORMS_FN = ["sqrt({a})", "sin({a})+1", "exp(-{a})*{b}"]
SLOTS = {
    "pos": "G(F) | 0\n", "pos2": "G(1, F) | 0\n", "kw": "G(k=F) | 0\n", "pos+kw": "G(F, k=F) | [0, 1]\n",
    "scalar": "float x = F\nG(x) | 0\n", "scalar-expr": "float x = F\nG(2*x+1, k=x) | 0\nH(x*x) | 1\n",
    "loop": "for int i in 1:3\n    G(F, i) | i\n", "loopvar": "for int i in 1:3\n    G(i*(F)) | i\n", "looplist": "for float t in [0.5, 2]\n    G(t+F, k=F) | 0\n",
    "loopvar-from-0": "for int i in 0:3\n    G(i*(F), k=(F)*i) | i\n", "zero-coefficient": "int k = 0\nG(k*(F), F) | 0\nH(2, z=(F)*k) | 1\n",
    "twoops": "G(F) | 0\nMeasureX | 0\nH(F, 2) | 1\n", "after-decl": "int n = 2\nfloat array B =\n    1, 2\nG(n*(F)+B[1]) | n\n",
}
SLOTS_T = {"list": "G(k=[F, 1]) | 0\n", "list2": "G(1, k=[2, F], l=[F]) | 0\n"}
VALUE_CLASSES = {
    "dyadic": [0.5, -1.25, 2.0], "integer": [2, 7, -3], "generic": [0.1, 1 / 3, 1e-3, 123.456, 3.141592653589793], "complex": [1 + 2j, -0.5j],
    "zero": [0.0, 0, 1.5],      # a value is a value: zero of either kind next to an ordinary one (forms that divide by it are out of domain)
}
NAMESETS = [("a", "b"), ("alpha", "a"), ("x1", "e")]
NAMESETS_T = [("p0", "p1"), ("p", "pp"), ("n", "x"), ("B", "i"), ("q2_0", "q1x"), ("q0_phase", "pix"), ("sqrt2", "q10n")]   # incl. names that collide with declared variables, arrays and loop variables
# names that mean something to the host language or to SymPy (all are plain NAME tokens of the grammar)
NAMESETS_HOST = [("lambda", "beta"), ("gamma", "E"), ("I", "S"), ("N", "Q"), ("re", "im"), ("None", "is"), ("oo", "zoo"), ("if", "not"), ("def", "O"), ("values", "kwargs"), ("prog", "v"), ("self", "a"), ("as", "or")]


def rename(src, names):
    return src.replace("{a}", "{%s}" % names[0]).replace("{b}", "{%s}" % names[1])


def substitute(src, vv):
    """S[{p} := (repr(v))]; 2-D array values replace a whole-array `{P}` row by literal rows"""
    out = src
    for k, x in vv.items():
        if isinstance(x, list):
            rows = "\n".join("    " + ", ".join("(%r)" % e for e in row) for row in x)
            out = re.sub(r"^    \{%s\}$" % re.escape(k), rows, out, flags=re.M)
        else:
            out = out.replace("{%s}" % k, "(%r)" % (x,))
    return out


def cv(v):
    """comparison form: numbers as complex (kind of int/float and array dtype are blind spots)"""
    import numpy as np
    import sympy as sym
    if isinstance(v, np.ndarray):
        return ("arr", tuple(v.shape), [cv(x) for x in v.flatten().tolist()])
    if isinstance(v, (list, tuple)):
        return [cv(x) for x in v]
    if isinstance(v, sym.Expr):
        if v.free_symbols:
            return ("SYM", str(v))
        return complex(v)
    if type(v).__name__ == "RegRefTransform":
        return ("RRT", str(v))
    if isinstance(v, (str, bool)) or v is None:
        return v
    if isinstance(v, dict):
        return [(k, cv(x)) for k, x in v.items()]
    try:
        return complex(v)
    except Exception:  # noqa
        return ("?", repr(v))


def close(a, b, scale=0.0):
    """`scale` = magnitude of the largest parameter value: an absolute slack of 1e-12*(1+scale)^3 keeps cases where the
    expression cancels (excluded by the property) from being reported, while any real difference is far larger"""
    if isinstance(a, tuple) and a and a[0] == "arr":
        return isinstance(b, tuple) and b and b[0] == "arr" and a[1] == b[1] and all(close(x, y, scale) for x, y in zip(a[2], b[2]))
    if isinstance(a, list):
        return isinstance(b, list) and len(a) == len(b) and all(close(x, y, scale) for x, y in zip(a, b))
    if isinstance(a, complex) and isinstance(b, complex):
        return abs(a - b) <= 1e-9 * max(abs(a), abs(b)) + 1e-12 * (1 + scale) ** 3
    return type(a) == type(b) and a == b


def content(p):
    return ([(o["op"], [cv(a) for a in o.get("args", [])], [(k, cv(v)) for k, v in o.get("kwargs", {}).items()], [int(m) for m in o["modes"]]) for o in p.operations],
            {k: cv(v) for k, v in p.variables.items()})


@common.guarded("C04")
def _container(v, kind):
    """the same 2-D value handed over in another container / memory layout"""
    import numpy as np
    if kind in (None, "list"):
        return [list(row) for row in v]
    if kind == "tuple":
        return tuple(tuple(row) for row in v)
    a = np.array(v)
    if kind == "ndarray":
        return a
    if kind == "fortran":
        return np.asfortranarray(a)
    if kind == "transposed-view":
        return np.ascontiguousarray(a.T).T
    if kind == "reversed-view":
        return np.ascontiguousarray(a[::-1, ::-1])[::-1, ::-1]
    if kind == "strided-view":
        big = np.zeros((a.shape[0] * 2, a.shape[1] * 3), dtype=a.dtype)
        big[::2, 1::3] = a
        return big[::2, 1::3]
    raise ValueError(kind)


CONTAINERS = ["list", "tuple", "ndarray", "fortran", "transposed-view", "reversed-view", "strided-view"]


def _nonfinite(prog):
    import numpy as np

    def bad(v):
        if isinstance(v, (list, tuple)):
            return any(bad(x) for x in v)
        if isinstance(v, np.ndarray):
            try:
                return not np.all(np.isfinite(v.astype(complex)))
            except (TypeError, ValueError):
                return False
        if isinstance(v, (int, float, complex, np.number)) and not isinstance(v, bool):
            return not np.isfinite(complex(v))
        return False
    return any(bad(v) for o in prog.operations for v in list(o.get("args", [])) + list(o.get("kwargs", {}).values())) or any(bad(v) for v in prog.variables.values())


def judge(src, vv, expect_params):
    container = vv.get("__container__")
    vv = {k: v for k, v in vv.items() if k != "__container__"}
    H = header_for(src)
    st, t = common.loads(H + src)
    feat = features(src)
    if st == "exc":
        if feat["function-of-parameter"] and type(t).__name__ == "TypeError":
            return ("C04/function-of-parameter", common.exc_sig(t))
        return ("C04/template-does-not-load:" + type(t).__name__, common.exc_sig(t))
    if set(t.parameters) != set(expect_params):
        return ("C04/parameters-wrong" + (":p-like-name" if feat["p-like-name"] else ""), "reported %r, written %r" % (sorted(t.parameters), sorted(expect_params)))
    if bool(t.is_template()) != bool(expect_params):
        return ("C04/is_template-wrong", "is_template()=%r with parameters %r" % (t.is_template(), sorted(expect_params)))
    if not expect_params:
        return None
    scale = max([abs(x) for v in vv.values() for x in ([v] if not isinstance(v, list) else [e for row in v for e in row])] + [0.0])
    sub = substitute(src, vv)
    st2, r = common.loads(H + sub)
    if st2 == "exc":
        return "skip"      # the substituted script is outside the domain (e.g. division by zero): not a verdict on the template
    if _nonfinite(r):
        return "skip"      # a division by zero that the evaluator turns into inf / nan: outside the domain just the same
    try:
        inst = t(**{k: (v if not isinstance(v, list) else _container(v, container)) for k, v in vv.items()})
    except Exception as e:  # noqa
        if "self" in vv and isinstance(e, TypeError) and "multiple values for argument 'self'" in str(e):
            return ("C04/parameter-named-self", common.exc_sig(e))
        return ("C04/instantiation-raises:" + type(e).__name__, common.exc_sig(e))
    if inst.parameters or inst.is_template():
        return ("C04/instance-still-has-parameters", repr(sorted(inst.parameters)))
    got, ref = content(inst), content(r)
    d = []
    # the instance is the same program in every other respect: name, version, target, program type
    for what, a_, b_ in (("name", inst.name, r.name), ("version", inst.version, r.version), ("target", cv(inst.target), cv(r.target)), ("type", cv(inst.programtype), cv(r.programtype))):
        if a_ != b_:
            d.append("metadata-%s %r vs %r" % (what, a_, b_))
    if len(got[0]) != len(ref[0]):
        d.append("number of operations")
    else:
        for i, (g, x) in enumerate(zip(got[0], ref[0])):
            if g[0] != x[0] or g[3] != x[3]:
                d.append("op%d gate/modes" % i)
            if not close(g[1], x[1], scale):
                d.append("op%d args %r vs %r" % (i, g[1], x[1]))
            if [k for k, _ in g[2]] != [k for k, _ in x[2]] or not all(close(a[1], b[1], scale) for a, b in zip(g[2], x[2])):
                d.append("op%d kwargs %r vs %r" % (i, g[2], x[2]))
    if set(got[1]) != set(ref[1]):
        d.append("variable names %r vs %r" % (sorted(got[1]), sorted(ref[1])))
    else:
        for k in got[1]:
            if not close(got[1][k], ref[1][k], scale):
                d.append("variable %s %r vs %r" % (k, got[1][k], ref[1][k]))
    if d:
        cls = "metadata" if any(x.startswith("metadata") for x in d) else ("operations" if any(x.startswith("op") or x.startswith("number") for x in d) else "variables")
        f = "+".join(k for k in ("array-argument", "list-element", "function-of-parameter", "p-like-name") if feat[k])
        return ("C04/instance-differs-from-substitution:%s%s" % (cls, (":" + f) if f else ""), "; ".join(d)[:400])
    # omitting any one parameter must raise ValueError
    for k in vv:
        less = {a: b for a, b in vv.items() if a != k}
        try:
            t(**less)
            return ("C04/missing-parameter-accepted", "omitting %s" % k)
        except ValueError:
            pass
        except Exception as e:  # noqa
            return ("C04/missing-parameter-wrong-exception:" + type(e).__name__, "omitting %s: %s" % (k, common.exc_sig(e)))
    return None


def features(src):
    return {"array-argument": bool(re.search(r"array \w+(\[[^\]]*\])? =\n(    .*\n)*    .*\{", src)) and bool(re.search(r"[(, =]A[,)]", src)),
            "list-element": bool(re.search(r"=\[[^\]]*\{", src)),
            "function-of-parameter": bool(re.search(r"(sqrt|sin|cos|tan|exp|log|sinh|cosh|tanh)\([^)]*\{", src)),
            "p-like-name": bool(re.search(r"\{p\d+\}", src))}


def _case(c):
    return judge(*c)


def expand(names_vals):
    return names_vals


def array_cases(ctx):
    """bare {p} at every subset of positions of 1x2, 2x2, 2x3 arrays; whole-array parameters"""
    out = []
    lit = lambda k: "%d.5" % (k + 1)
    for r, c in ((1, 2), (2, 2), (2, 3)):
        n = r * c
        subsets = [s for k in range(1, n + 1) for s in itertools.combinations(range(n), k)]
        for ps in subsets:
            if len(ps) > 3 and ctx.quick and len(ps) != n:
                continue
            rows = "\n".join("    " + ", ".join(("{u%d}" % (i * c + j)) if (i * c + j) in ps else lit(i * c + j) for j in range(c)) for i in range(r))
            names = ["u%d" % k for k in ps]
            for use in ("G(A[%d], A[%d]) | 0" % (ps[0], n - 1), "G(A) | 0", "G(1) | 0"):
                src = "float array A =\n%s\n%s\n" % (rows, use)
                for cls in ("dyadic", "generic", "integer"):     # (integer values next to non-integer literal elements)
                    vals = VALUE_CLASSES[cls]
                    vv = {nm: vals[(i + 1) % len(vals)] * (1 + i) for i, nm in enumerate(names)}
                    out.append((src, vv, names))
    for t, (r, c) in itertools.product(("float", "complex", "int"), ((1, 1), (1, 2), (2, 2), (2, 3), (3, 1))):
        for use in ("G(%s) | 0" % ", ".join("A[%d]" % k for k in range(r * c)), "G(A) | 0", "G(k=A) | 0", "G(2*A[0]+1, {a}) | 0"):
            src = "%s array A[%d, %d] =\n    {P}\n%s\n" % (t, r, c, use)
            base = {"float": 0.5, "complex": 0.5 + 1j, "int": 2}[t]
            arr = [[(base * (1 + i * c + j) if t != "int" else 2 + i * c + j) for j in range(c)] for i in range(r)]
            names = ["P_%d_%d" % (i, j) for i in range(r) for j in range(c)] + (["a"] if "{a}" in use else [])
            for cont in CONTAINERS:
                vv = {"P": arr}
                if cont != "list":
                    vv["__container__"] = cont
                if "{a}" in use:
                    vv["a"] = 0.25
                out.append((src, vv, names))
    # several whole-array parameters in one template (two and three; names one of which begins like another), with a scalar
    # parameter before / between / after them in the call, values handed over in every order of the keywords
    shp = ((1, 1), (1, 3), (2, 2), (3, 1))
    mk = lambda r, c, base: [[base * (1 + i * c + j) for j in range(c)] for i in range(r)]
    for (s1, s2), (n1, n2) in itertools.product(itertools.product(shp, repeat=2), (("U", "V"), ("U", "U2"), ("W_0", "W"))):
        src = "float array A[%d, %d] =\n    {%s}\ncomplex array B[%d, %d] =\n    {%s}\nG(A, {a}, k=B) | 0\nH(B[0], A[0]) | 1\n" % (s1 + (n1,) + s2 + (n2,))
        names = ["%s_%d_%d" % (n1, i, j) for i in range(s1[0]) for j in range(s1[1])] + ["%s_%d_%d" % (n2, i, j) for i in range(s2[0]) for j in range(s2[1])] + ["a"]
        items = [(n1, mk(s1[0], s1[1], 0.5)), (n2, mk(s2[0], s2[1], 0.25 + 1j)), ("a", -1.25)]
        for perm in itertools.permutations(items):
            out.append((src, dict(perm), names))
    for s1, s2, s3 in (((1, 2), (2, 1), (2, 2)), ((2, 2), (2, 2), (2, 2)), ((1, 1), (1, 2), (1, 3))):
        src = "float array A[%d, %d] =\n    {U}\nfloat array B[%d, %d] =\n    {V}\nint array C[%d, %d] =\n    {W}\nG(A, B, C) | 0\n" % (s1 + s2 + s3)
        names = [n + "_%d_%d" % (i, j) for n, sh in (("U", s1), ("V", s2), ("W", s3)) for i in range(sh[0]) for j in range(sh[1])]
        items = [("U", mk(s1[0], s1[1], 0.5)), ("V", mk(s2[0], s2[1], -0.75)), ("W", mk(s3[0], s3[1], 3))]
        for perm in itertools.permutations(items):
            out.append((src, dict(perm), names))
    # parameters whose names begin like the whole-array parameter or like its generated element names (P_scale, P_0, Px),
    # written before and after the array declaration
    for (r, c), extra, before in itertools.product(((1, 2), (2, 2)), ("P_scale", "P_0", "Px", "P_0_0_x", "PP"), (True, False)):
        decl = "float array A[%d, %d] =\n    {P}\n" % (r, c)
        other = "float x = {%s}\n" % extra
        src = (other + decl if before else decl + other) + "G(x, A) | 0\n"
        arr = [[0.5 * (1 + i * c + j) for j in range(c)] for i in range(r)]
        out.append((src, {"P": arr, extra: 0.25}, ["P_%d_%d" % (i, j) for i in range(r) for j in range(c)] + [extra]))
    return out


def build(ctx):
    cases = []
    fam = collections.Counter()
    slots = dict(SLOTS)
    forms = list(FORMS)
    namesets = list(NAMESETS) + NAMESETS_HOST
    slots.update(SLOTS_T)
    namesets += NAMESETS_T
    forms_all = forms + FORMS_FN
    for (sn, tpl), f, names in itertools.product(slots.items(), forms_all, namesets):
        if names != NAMESETS[0] and (sn not in ("pos", "kw", "scalar", "twoops") or f not in ("{a}", "{a}*{b}", "{a}-2*{b}", "0.5*{a}-{b}/4")):
            continue
        src = rename(tpl.replace("F", f), names)
        used = [n for n in names if "{%s}" % n in src]
        for cls, vals in VALUE_CLASSES.items():
            if cls == "complex" and (sn.startswith("scalar") or sn in ("loopvar", "after-decl", "looplist")):
                continue
            if f in FORMS_FN and cls != "dyadic":
                continue
            combos = list(itertools.product(vals, repeat=len(used)))
            if cls == "generic" and ctx.quick:
                combos = combos[::2]
            for combo in combos:
                vv = dict(zip(used, combo))
                cases.append((src, vv, used))
                fam[sn] += 1
        if len(used) == 2 and not ctx.quick:
            for x, y in ((0.5, 7), (3, 0.1), (1e-3, -1.25)):
                cases.append((src, dict(zip(used, (x, y))), used))
                fam[sn + " (mixed classes)"] += 1
    # int scalar initialised from a parameter: integer values only (the cast is outside the property)
    for v in (2, 7, -3):
        cases.append(("int n = {a}\nG(n, 2*n) | 0\n", {"a": v}, ["a"]))
        fam["int-scalar"] += 1
    for c in array_cases(ctx):
        cases.append(c)
        fam["array"] += 1
    # programs without parameters: not a template
    cases.append(("G(1) | 0\n", {}, []))
    return cases, fam


def run(ctx):
    cases, fam = build(ctx)
    cases = common.shard(cases, ctx.seed)
    res = pool.pmap(_case, cases, chunk=30)
    Vs = common.Violations(keep=5)
    skipped = 0
    distinct = set()
    for c, r in zip(cases, res):
        if r == "skip":
            skipped += 1
            continue
        distinct.add((c[0], repr(sorted(c[1].items()))))
        if r == "TIMEOUT":
            Vs.add("C04/no-outcome", {"src": c[0], "values": repr(c[1]), "params": c[2]}, "timeout")
        elif r is not None:
            Vs.add(r[0], {"src": c[0], "values": repr(c[1]), "params": c[2]}, r[1])
    cov = {"evaluations": len(cases), "distinct_nontrivial": len(distinct),
           "rule": "template scripts = slot (positional, keyword, scalar initialiser then used, loop bodies, after declarations, list element) x expression form (14 polynomial/rational forms + 3 with functions) x parameter-name set "
                   "x every assignment of values from one class at a time (dyadic, integer, generic, complex) to the <=2 parameters; arrays 1x2/2x2/2x3 with a bare {p} at every subset of positions used as A[k] / as a whole argument / unused; "
                   "whole-array parameters for 5 shapes x 3 element types. non-trivial = >=1 parameter with a complete assignment whose substituted script loads; distinct by (source, assignment)",
           "samples": [{"src": c[0], "values": repr(c[1])} for c in common.sample(cases, 5)], "exhaustive": True, "by_family": dict(fam), "substituted_script_outside_domain_skipped": skipped}
    return {"coverage": cov, "violations": Vs.records(),
            "assumptions": ["dtype of instantiated arrays and int-vs-float kind of results are not compared", "int scalars initialised from a parameter are instantiated with integer values only"]}


def replay(case):
    r = judge(case["src"], pyast.literal_eval(case["values"]), case["params"])
    return (r not in (None, "skip")), repr(r)[:400]
