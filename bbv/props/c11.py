"""C11  Ill-formed but grammatical programs are refused, never silently accepted.

Valid base scripts (prefix x suffix) with exactly one fault injected: undefined name in every slot, reserved
name in every declaration form, non-integer mode, complex value to int/float, wrong-type loop value, include
call with wrong arity / keywords.  Oracle: loading raises; for undefined / reserved names it is a
BlackbirdSyntaxError naming the identifier, its line, and its column (0- or 1-based).
"""
import collections
import itertools
import os

from bbv.core import pool
from bbv.g4 import syntax
from . import common

LEVEL = "exploration"
H = "name a\nversion 1.0\n"
PRE = ["", "int n = 3\nG(n) | 0\n", "float array A =\n    1, 2\nG(A[1]) | 0\nfor int i in 0:2\n    H(i) | i\n", "\n\nG | 0\n# comment\nH | [1, 2]\n"]
POST = ["", "Z | 5\n", "for int w in [1]\n    Z | w\n"]

UND = [("pos", "G(U) | 0"), ("pos2", "G(1, U) | 0"), ("kw", "G(k=U) | 0"), ("listel", "G(k=[1, U]) | 0"), ("mode", "G | U"), ("mode2", "G | [0, U]"), ("idxexpr", "G(B[U]) | 0"),
       ("idxname", "G(U[0]) | 0"), ("fn", "G(sin(U)) | 0"), ("arith", "G(1+2*U) | 0"), ("neg", "G(-U) | 0"), ("pow", "G(2**U) | 0"), ("looplist", "for int j in [0, U]\n    G | j"),
       ("loopbody", "for int j in 0:2\n    G(U) | j"), ("loopmode", "for int j in 0:2\n    G | [j, U]"), ("scalar", "float y = U"), ("scalarexpr", "int y = 2*U+1"),
       ("arrayel", "float array C =\n    1, U"), ("arrayel0", "float array C =\n    U, 1\n    2, 3"), ("kwexpr", "G(1, k=U**2) | 0"), ("measure", "MeasureX(phi=U) | 0"), ("grp", "G((U)) | 0")]
NAMES = ["uu", "y2", "Sgate_x", "q1x", "q0_gain", "q10n", "pix", "sqrt2", "p0", "Truex", "e1", "j2"]     # the later ones look like registers, constants, functions, p-arrays, booleans, exponents, imaginary units
RESERVED = ["q0", "q12", "name", "version", "target", "type"]
DECLS = [("int", "int R = 1"), ("float", "float R = 1.5"), ("complex", "complex R = 1+2j"), ("bool", "bool R = True"), ("str", 'str R = "s"'),
         ("arr", "float array R =\n    1, 2"), ("arrshape", "int array R[1, 2] =\n    1, 2"), ("carr", "complex array R =\n    1j")]
MODES = ["1.0", "1+0j", "2/2", "2**0.5", "x", "z", "A2[0]", "s", "[0, 1.5]", "[1.0, 0]", "(0, x)", "0, 2.0", '"a"', "pi", "-0.0", "4/2"]
CPLX = ["1+2j", "(1+2j)*2", "2*1j", "sqrt(-1+0j)", "z", "z*z", "1j**2+0.5j", "-z", "exp(1j)", "z/2",
        # computed complex values whose imaginary part happens to be zero are still complex values
        "1j*1j", "2j**2", "z-2j", "(1+2j)*(1-2j)", "z*0"]
CSLOTS = [("int", "int v = C"), ("float", "float v = C"), ("intarr", "int array V =\n    1, C"), ("floatarr", "float array V[1, 2] =\n    C, 1"), ("floatarr2", "float array V =\n    1, 2\n    3, C"),
          ("floatarr-with-param", "float array V =\n    {alpha}, 0.5, C"), ("intarr-with-param", "int array V[1, 3] =\n    1, {p}, C"), ("floatarr2-with-param", "float array V =\n    C, 2\n    3, {p}"),
          ("intloop", "for int j in [C]\n    G | 0"), ("floatloop", "for float j in [1.5, C]\n    G | 0")]
LOOPT = [("int", "0.5"), ("int", '"a"'), ("str", "1"), ("float", '"a"'), ("bool", "2"), ("int", "1, 2.5"), ("bool", '"True"'), ("str", "True"), ("int", "7/2"),
         ("str", '"a", 2.5'), ("str", '"x", True'), ("str", '1, "b"'), ("int", '1, "2"'), ("float", '0.5, "1.5"'), ("bool", 'True, 2')]


@common.guarded("C11")
def judge(src, expect):
    """expect: None (any exception), or (ident, line, col0)"""
    st, p = common.loads(src)
    if st == "ok":
        return ("accepted", "loaded: %r" % ([(o["op"], o.get("args"), o.get("kwargs"), o["modes"]) for o in p.operations][:4],))
    if expect is None:
        return None
    ident, line, col = expect
    if not common.is_bbsyntax(p):
        return ("wrong-exception:" + type(p).__name__, common.exc_sig(p))
    msg = str(p.args[0]) if p.args else str(p)
    m = syntax.LINECOL.search(msg)
    if not m:
        return ("no-position", msg[:120])
    if "'%s'" % ident not in msg and ident not in msg.split():
        return ("identifier-not-named", msg[:120])
    if int(m.group(1)) != line or int(m.group(2)) not in (col, col + 1):
        return ("wrong-position", "reported %s:%s, identifier %r is at line %d column %d (0-based): %s" % (m.group(1), m.group(2), ident, line, col, msg[:100]))
    return None


def _case(c):
    tag, src, expect = c
    r = judge(src, expect)
    if r is not None and tag.startswith("undefined-emptyloopbody-") and r[0] == "accepted":
        return ("C11/undefined-name-in-body-of-loop-that-never-runs", r[1] + " ;; " + src.split("\n")[5] + " / " + src.split("\n")[6].strip())
    return None if r is None else ("C11/%s:%s" % (tag.split("-")[0] + "-" + tag.split("-")[1] if tag.count("-") else tag, r[0]), r[1])


def gmode_case(toks):
    """grammar-driven: a statement (enumerated from the .g4) whose mode list the reference model evaluates to a
    non-integer value (float, complex, string-free expression, pi, function value ...) must not load"""
    from bbv.props import c02
    from bbv.model import refparse, denote
    texts = c02.gtexts(toks)
    line = c02._join(toks, texts)
    body = [x for t, x in zip(toks, texts) if t != "NEWLINE"]
    try:
        stmt, readings = refparse.parse_statement(body)
    except refparse.Bad:
        return "skip"
    verdicts = []
    for rd in readings:
        try:
            denote.Model().run(dict(name="g", version="1.0", items=c02.GDECLS + [stmt[:4] + (rd, "none")]))
            verdicts.append("ok")
        except denote.Refused as e:
            verdicts.append(str(e))
        except Exception:  # noqa
            verdicts.append("other")
    if not verdicts or any(v != "non-integer mode" for v in verdicts):
        return "skip"
    # the arguments must be evaluable, otherwise something else may legitimately fail first - irrelevant: any exception is a refusal
    script = "name g\nversion 1.0\n\n" + c02.GPRE + line + ("" if line.endswith("\n") else "\n")
    st, p = common.loads(script)
    if st == "ok":
        return ("C11/mode-grammar-driven:accepted", "loaded with modes %r ;; %s" % ([o["modes"] for o in p.operations], line.strip()))
    return None


def _gchunk(chunk):
    n = 0
    V = common.Violations(keep=3)
    for toks in chunk:
        r = gmode_case(toks)
        if r == "skip":
            continue
        n += 1
        if r is not None:
            V.add(r[0], {"tokens": list(toks)}, r[1])
    return n, V.records()


def locate(src, ident, start_line=1):
    lines = src.split("\n")
    for ln, l in enumerate(lines, 1):
        if ln < start_line:
            continue
        import re
        m = re.search(r"(?<![A-Za-z0-9_])" + re.escape(ident) + r"(?![A-Za-z0-9_])", l)
        if m:
            return ln, m.start()
    raise ValueError(ident)


def build(ctx, incdir):
    cases = []
    pres = PRE if ctx.quick else PRE + [a + b for a in PRE[1:] for b in PRE[1:]]
    posts = POST if ctx.quick else POST + [a + b for a in POST[1:] for b in POST[1:] if a != b]
    names = NAMES
    for pre, post, (slot, tpl), nm in itertools.product(pres, posts, UND, names):
        body = "int array B =\n    1, 2\n" + pre
        src = H + body + tpl.replace("U", nm) + "\n" + post
        ln, c = locate(src, nm, len((H + body).split("\n")))
        cases.append(("undefined-" + slot, src, (nm, ln, c)))
    # a former loop variable used after its loop is an undefined name like any other
    for post, (slot, tpl) in itertools.product(posts, UND):
        if slot in ("looplist", "loopbody", "loopmode"):
            continue
        body = "int array B =\n    1, 2\nfor int w in 0:2\n    H(w) | w\n"
        src = H + body + tpl.replace("U", "w") + "\n" + post
        ln, c = locate(src, "w", len((H + body).split("\n")))
        cases.append(("undefined-formerloopvar-" + slot, src, ("w", ln, c)))
    # the body of a loop that runs zero times still uses the name
    for hdr_, (slot, tpl) in itertools.product(("for int j in 2:2", "for int j in 3:0", "for float t in 1:1"), (("pos", "G(U) | 0"), ("kw", "G(k=U) | 0"), ("mode", "G | U"), ("idxexpr", "G(B[U]) | 0"), ("arith", "G(1+2*U) | 0"))):
        body = "int array B =\n    1, 2\n"
        src = H + body + hdr_ + "\n    " + tpl.replace("U", "uu") + "\nZ | 5\n"
        ln, c = locate(src, "uu", len((H + body).split("\n")))
        cases.append(("undefined-emptyloopbody-" + slot, src, ("uu", ln, c)))
    # an included file declares variables with exactly these names: they are the included program's own and are not
    # defined in the including script
    for post, (slot, tpl), nm in itertools.product(posts[:2], UND, names):
        incv = 'include "%s"\n' % os.path.join(incdir, "varsarr.xbb" if slot == "idxname" else "vars.xbb")
        body = "int array B =\n    1, 2\n"
        src = H + incv + "\n" + body + "Vars | 7\n" + tpl.replace("U", nm) + "\n" + post
        ln, c = locate(src, nm, len((H + incv + "\n" + body).split("\n")))
        cases.append(("undefined-declared-in-include-" + slot, src, (nm, ln, c)))
    for hdr, slot in (("target g (shots=uu)\n", "targetopt"), ("type t (k=[1, uu])\n", "typeopt"), ("target g (a=1, b=2*uu)\ntype t (c=1)\n", "targetopt2"),
                      # positional values in a metadata option list (the values are ignored with a warning - the names in them are not)
                      ("target g (uu)\n", "targetpos"), ("target g (uu, shots=10)\n", "targetpos2"), ("type t (2*uu, k=1)\n", "typepos"), ("target g (a=1)\ntype t (uu)\n", "typepos2"),
                      ("target g (shots=10)\ntype tdm (1, sqrt(uu), copies=1)\n", "typepos3")):
        src = "name a\nversion 1.0\n" + hdr + "G | 0\n"
        ln, c = locate(src, "uu")
        cases.append(("undefined-" + slot, src, ("uu", ln, c)))
    for pre, post, name, (kind, tpl) in itertools.product(pres, posts, RESERVED, DECLS):
        src = H + pre + tpl.replace("R", name) + "\n" + post
        ln = len((H + pre).split("\n"))
        line = src.split("\n")[ln - 1]
        c = line.find(" " + name + " ")
        if c < 0:
            c = line.find(" " + name + "[")
        c += 1
        cases.append(("reserved-" + kind, src, (name, ln, c)))
    decl = 'float x = 1.0\ncomplex z = 1+0j\nstr s = "a"\nfloat array A2 =\n    1, 2\n'
    for pre, post, m in itertools.product(pres, posts, MODES):
        cases.append(("mode-" + m, H + decl + pre + "G | %s\n" % m + post, None))
        cases.append(("mode-" + m, H + decl + pre + "G(1) | %s\nK | 0\n" % m + post, None))
    cases.append(("mode-loopvar", H + "for float y in [1.0]\n    G | y\n", None))
    cases.append(("mode-loopvar", H + "for float y in [0.5, 1.0]\n    G | [0, y]\n", None))
    ZERO_IMAG = ("1j*1j", "2j**2", "z-2j", "(1+2j)*(1-2j)", "z*0")
    for pre, post, c, (slot, tpl) in itertools.product(pres, posts, CPLX, CSLOTS):
        if "loop" in slot and c in ZERO_IMAG:
            continue   # a value that converts exactly (like 1.0 in an int loop) is a grey zone the property does not settle
        cases.append(("complex-" + slot, H + "complex z = 1+2j\n" + pre + tpl.replace("C", c) + "\n" + post, None))
    for t, v in LOOPT:
        for br in ("[%s]", "(%s)", "%s"):
            cases.append(("looptype-%s" % t, H + "for %s j in %s\n    G | 0\n" % (t, br % v), None))
    # a range denotes integers: it is not a list of strings or of booleans
    for t, rng in itertools.product(("str", "bool"), ("0:3", "1:4:2", "2:3")):
        cases.append(("looptype-%s-range" % t, H + "for %s j in %s\n    G(j) | 0\n" % (t, rng), None))
    # include call faults (files created by the caller in incdir)
    inc = 'include "%s"\n' % os.path.join(incdir, "sub2.xbb")
    incp = 'include "%s"\n' % os.path.join(incdir, "subp.xbb")
    for call, tag in (("Sub2 | 0", "arity-few"), ("Sub2 | [0, 1, 2]", "arity-many"), ("Sub2(a=1) | [0, 1]", "kw-on-plain"), ("Sub2(1) | [0, 1]", "pos-on-plain")):
        cases.append(("include-" + tag, H + inc + "\n" + call + "\n", None))
    incs = 'include "%s"\n' % os.path.join(incdir, "sparse.xbb")
    for call, tag in (("Sparse | [4, 5, 6]", "arity-register-size"), ("Sparse | 4", "arity-few-sparse"), ("Sparse | [4, 5, 6, 7]", "arity-many-sparse")):
        cases.append(("include-" + tag, H + incs + "\n" + call + "\n", None))
    for call, tag in (("SubP | [0, 1]", "kw-missing-all"), ("SubP(a=1) | [0, 1]", "kw-missing-one"), ("SubP(a=1, b=2, c=3) | [0, 1]", "kw-extra"), ("SubP(a=1, bb=2) | [0, 1]", "kw-misspelt"),
                      ("SubP(a=1, b=2) | 0", "arity-few"), ("SubP(a=1, b=2) | [0, 1, 2]", "arity-many")):
        cases.append(("include-" + tag, H + incp + "\n" + call + "\n", None))
    # the same faulty calls AFTER a correct application of the same program (as a statement, and inside a loop): every
    # application is checked, not the first one only
    for good, incl, bads in (("Sub2 | [3, 4]", inc, ("Sub2 | 0", "Sub2 | [0, 1, 2]", "Sub2(a=1) | [0, 1]")), ("Sparse | [4, 5]", incs, ("Sparse | [4, 5, 6]", "Sparse | 4")),
                             ("SubP(a=1, b=2) | [0, 1]", incp, ("SubP(a=1) | [0, 1]", "SubP(a=1, b=2, c=3) | [0, 1]", "SubP(a=1, b=2) | 0", "SubP(a=1, b=2) | [0, 1, 2]", "SubP | [0, 1]"))):
        for bad in bads:
            cases.append(("include-after-correct-call", H + incl + "\n" + good + "\n" + bad + "\n", None))
            cases.append(("include-after-correct-calls-in-loop", H + incl + "\nfor int r in 0:2\n    " + good + "\nG | 0\n" + bad + "\n", None))
    return cases


def write_includes(d):
    os.makedirs(d, exist_ok=True)
    open(os.path.join(d, "sub2.xbb"), "w").write("name Sub2\nversion 1.0\n\nG | 0\nH(0.5) | [1, 0]\n")
    open(os.path.join(d, "sparse.xbb"), "w").write("name Sparse\nversion 1.0\n\nG | 2\nH(0.5) | [0, 2]\n")
    open(os.path.join(d, "vars.xbb"), "w").write("name Vars\nversion 1.0\n\nint uu = 1\nint y2 = 0\nint Sgate_x = 1\nint array B =\n    0, 1\nG(uu) | 0\n")
    open(os.path.join(d, "varsarr.xbb"), "w").write("name Vars\nversion 1.0\n\nint array uu =\n    1, 0\nint array y2 =\n    0, 1\nint array Sgate_x =\n    1, 1\nG(uu[0]) | 0\n")
    open(os.path.join(d, "subp.xbb"), "w").write("name SubP\nversion 1.0\n\nG({a}) | 0\nH({b}, 2*{a}) | [1, 0]\n")


def run(ctx):
    incdir = os.path.join(ctx.scratch, "inc")
    write_includes(incdir)
    cases = common.shard(build(ctx, incdir), ctx.seed)
    # sanity: the include files really are callable when called correctly (otherwise the refusals are vacuous)
    st, p = common.loads(H + 'include "%s"\ninclude "%s"\ninclude "%s"\n\nSub2 | [3, 4]\nSubP(a=1, b=2) | [0, 1]\nSparse | [4, 5]\n' % (os.path.join(incdir, "sub2.xbb"), os.path.join(incdir, "subp.xbb"), os.path.join(incdir, "sparse.xbb")))
    include_sanity = (st == "ok" and len(p.operations) == 6)
    # (if the correct calls do not load, the refusals of the mismatched calls are vacuous but harmless; that correct
    # calls fail is C07's subject - the flag is recorded in the evidence)
    res = pool.pmap(_case, cases, chunk=40)
    V = common.Violations(keep=6)
    # grammar-driven non-integer modes: every `statement` sentence up to L tokens whose modes the model finds non-integer
    from bbv.props import c02
    (L, sents), _ = c02.grammar_statements(300000 if ctx.quick else 3000000)
    chunks = [sents[i:i + 1000] for i in range(0, len(sents), 1000)]
    ng = 0
    for r in pool.pmap(_gchunk, chunks, chunk=1, timeout=3600):
        if r == "TIMEOUT":
            continue
        ng += r[0]
        V.merge(r[1])
    fam = collections.Counter()
    for c, r in zip(cases, res):
        fam[c[0].split("-")[0]] += 1
        if r == "TIMEOUT":
            V.add("C11/no-outcome", {"tag": c[0], "src": c[1], "expect": c[2], "needs_includes": "include" in c[0]}, "timeout")
        elif r is not None:
            V.add(r[0], {"tag": c[0], "src": c[1], "expect": c[2], "needs_includes": "include" in c[0]}, r[1])
    # every faulty script once more in interpreters started with -O / -OO: refused there too (a refusal written as an
    # assert statement is no refusal in an optimised interpreter)
    srcs = [c[1] for c, r in zip(cases, res) if r is None]       # (what the ordinary interpreter already accepts is reported above)
    parts = [srcs[i::6] for i in range(6)]
    tasks = [(part, fl) for fl in (["-O"], ["-OO"]) for part in parts]
    nchild = 0
    for (part, fl), outs in zip(tasks, pool.pmap(common.loads_in_child, tasks, chunk=1, timeout=1800)):
        for src_, o in zip(part, outs if isinstance(outs, list) else []):
            nchild += 1
            if o == "ok":
                V.add("C11/accepted-by-python " + " ".join(fl), {"tag": "child", "src": src_, "expect": None, "needs_includes": "include" in src_, "flags": fl}, "loaded in an interpreter started with %s" % " ".join(fl))
    cov = {"evaluations": len(cases) + ng + nchild, "distinct_nontrivial": len(set(c[1] for c in cases)) + ng, "grammar_driven_non_integer_mode_statements": ng, "grammar_driven_max_tokens": L,
           "rule": "valid prefix x valid suffix x exactly one fault: undefined name in %d slots (x %d names) and 8 metadata-option slots (keyword and positional values); %d reserved names x %d declaration forms; %d non-integer mode forms x 2 statement shapes; "
                   "%d complex expressions x %d int/float slots; wrong-type loop values x 3 bracket styles; 13 mismatched include calls, each also after correct applications of the same program. non-trivial = every case (each has exactly one fault); distinct by source text"
                   % (len(UND), len(NAMES), len(RESERVED), len(DECLS), len(MODES), len(CPLX), len(CSLOTS)),
           "samples": [c[1] for c in common.sample(cases, 5)], "exhaustive": True, "by_fault_class": dict(fam), "include_family_sanity": include_sanity}
    return {"coverage": cov, "violations": V.records(),
            "assumptions": ["exception type is constrained only for undefined / reserved names (as the property states)", "column accepted 0- or 1-based", "bool used as a mode is not in the property's list and is not generated"]}


def replay(case):
    import tempfile
    import shutil
    if "tokens" in case:
        r = gmode_case(tuple(case["tokens"]))
        return isinstance(r, tuple), repr(r)[:300]
    src = case["src"]
    d = None
    if case.get("needs_includes"):
        import re
        d = tempfile.mkdtemp(prefix="bbv-c11r-")
        write_includes(d)
        src = re.sub(r'include "[^"]*/(sub2|subp|sparse|vars|varsarr)\.xbb"', lambda m: 'include "%s/%s.xbb"' % (d, m.group(1)), src)
    try:
        if case.get("flags"):
            o = common.loads_in_child(([src], case["flags"]))[0]
            return o == "ok", "child interpreter %s: %s" % (" ".join(case["flags"]), o)
        exp = case["expect"]
        r = judge(src, tuple(exp) if exp else None)
    finally:
        if d:
            shutil.rmtree(d, ignore_errors=True)
    return (r is not None), repr(r)
