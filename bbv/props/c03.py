"""C03  Expressions evaluate to their arithmetic value under the grammar's precedence.

(a) all well-formed expression token strings up to N operand positions (operators, stacked unary signs,
    bracket spans, function applications at every span), rendered with and without blanks;
    reference = precedence climbing written from the property's binding order + exact/IEEE evaluation
(b) every numeric literal string up to a length bound that the grammar-derived lexer accepts as one
    INT / FLOAT / COMPLEX token                     (c) the 15 functions at domain points incl. boundaries
"""
import cmath
import collections
import itertools
import math
from fractions import Fraction

from bbv.core import pool
from bbv.g4 import lexnfa
from bbv.model import denote
from . import common

LEVEL = "exploration"

# variables include names that mean something to Python, NumPy or SymPy (all are plain NAME tokens)
PRE = ("name t\nversion 1.0\n\nint n = 3\nfloat x = 0.25\nfloat e = 0.5\nint tau = 3\nfloat inf = 0.75\nfloat nan = 1.5\nfloat E = 2.5\nfloat I = -1.25\nfloat q1x = 0.5\nint q2_n = 3\ncomplex q0a = 1-2j\nfloat pix = 1.5\nfloat c = 299792458\nfloat g = 10\ncomplex w = -4\ncomplex u = 2.5\n"
       "float array A =\n    1.5, 2.5\n    -3.0, 4.25\n")
ENV = {"n": 3, "x": 0.25, "e": 0.5, "tau": 3, "inf": 0.75, "nan": 1.5, "E": 2.5, "I": -1.25, "q1x": 0.5, "q2_n": 3, "q0a": 1 - 2j, "pix": 1.5, "c": 299792458.0, "g": 10.0, "w": complex(-4), "u": complex(2.5)}
ARR = {"A": [1.5, 2.5, -3.0, 4.25]}
FUNCS = list(denote.FN)
BINOPS = ["+", "-", "*", "/", "**"]


class Bad(Exception):
    """token string is not a well-formed expression"""


# ------------------------------------------------------------------ reference parser / evaluator

def parse(toks):
    pos = [0]

    def peek():
        return toks[pos[0]] if pos[0] < len(toks) else None

    def eat(want=None):
        if pos[0] >= len(toks):
            raise Bad("eof")
        t = toks[pos[0]]
        if want is not None and t != want:
            raise Bad("want " + want)
        pos[0] += 1
        return t

    def add():
        v = mul()
        while peek() in ("+", "-"):
            op = eat()
            v = ("bin", op, v, mul())
        return v

    def mul():
        v = pw()
        while peek() in ("*", "/"):
            op = eat()
            v = ("bin", op, v, pw())
        return v

    # binding order of the property: brackets, then unary sign, then right-associative **, then * /, then + -.
    # A sign binds tighter than **:  -2**2 = (-2)**2 ;  the exponent may itself carry a sign: 2**-1
    def pw():
        b = un()
        if peek() == "**":
            eat()
            return ("bin", "**", b, pw())
        return b

    def un():
        if peek() in ("+", "-"):
            op = eat()
            return ("un", op, un())
        return prim()

    def prim():
        t = eat()
        if t == "(":
            v = add()
            eat(")")
            return ("grp", v)
        if t in denote.FN:
            eat("(")
            v = add()
            eat(")")
            return ("fn", t, v)
        if t == "pi":
            return ("pi",)
        if t[0].isdigit() or t[0] in "+-.":
            return ("num", t)
        if t[0].isalpha():
            if peek() == "[":
                eat("[")
                v = add()
                eat("]")
                return ("idx", t, v)
            return ("var", t)
        raise Bad("token " + t)
    v = add()
    if pos[0] != len(toks):
        raise Bad("trailing")
    return v


def ev(t, divmode=0, stat=None):
    """value of a reference tree; stat collects max |intermediate| and flags"""
    k = t[0]
    if k == "num":
        return denote.lit(t[1])
    if k == "pi":
        return math.pi
    if k == "var":
        if t[1] not in ENV:
            raise Bad("unknown name")
        return ENV[t[1]]
    if k == "idx":
        i = ev(t[2], divmode, stat)
        if not denote.isint(i) or not 0 <= i < len(ARR[t[1]]):
            raise denote.OutOfDomain("index")
        return ARR[t[1]][i]
    if k == "grp":
        return ev(t[1], divmode, stat)
    if k == "un":
        v = ev(t[2], divmode, stat)
        return -v if t[1] == "-" else v
    if k == "fn":
        v = ev(t[2], divmode, stat)
        r = denote.func(t[1], v)
        if divmode == 2 and isinstance(r, (float, complex)):
            r = r * (1 + 4e-16)       # conditioning probe: what a rounding error in this result does to the value around it
    else:
        a = ev(t[2], divmode, stat)
        b = ev(t[3], divmode, stat)
        if t[1] == "/" and divmode == 1:
            try:
                r = denote.arith("*", a, 1.0 / b if not isinstance(b, complex) else 1 / b)
            except ZeroDivisionError:
                raise denote.OutOfDomain("/")
        else:
            n0 = denote.NEGPOW[0]
            r = denote.arith(t[1], a, b)
            if denote.NEGPOW[0] != n0 and stat is not None:
                stat["negpow"] = True
        if t[1] == "/" and stat is not None and denote.isint(b) and t[3][0] != "num":
            stat["div_computed_int"] = True
    if stat is not None:
        stat["scale"] = max(stat.get("scale", 0.0), abs(r))
    return r


def expected(toks):
    """(value, tolerance, flags) or raises Bad / OutOfDomain"""
    tree = parse(toks)
    st = {}
    v0 = ev(tree, 0, st)
    try:
        v1 = ev(tree, 1, None)
    except denote.OutOfDomain:
        v1 = v0
    v2 = v0
    if any(x in denote.FN for x in toks):
        # a function applied to a function value near a singular point of the outer one (arctanh(tanh(10)), arctan(tan(1+10j)))
        # amplifies the inner rounding error; the probe measures by how much, and only that much is added
        try:
            v2 = ev(tree, 2, None)
            if isinstance(v2, (float, complex)) and not cmath.isfinite(complex(v2)):
                v2 = v0
        except (denote.OutOfDomain, denote.Refused, Bad, ArithmeticError, ValueError, TypeError):
            v2 = v0
    tol = 1e-12 * max(st.get("scale", 0.0), abs(v0)) + 8 * abs(complex(v0) - complex(v1)) + 8 * abs(complex(v0) - complex(v2)) + 1e-300
    return v0, tol, st


def agree(exp, tol, got, negpow=False):
    from bbv.core.observe import kind
    ke, kg = kind(exp), kind(got)
    if ke not in "ifc" or kg not in "ifc":
        return False
    if negpow and ke in "if" and kg in "if":
        # an integer raised to a negative integer power: the property fixes the value, not int-vs-float
        return abs(complex(exp) - complex(got)) <= tol
    if ke == "i":
        return kg == "i" and int(got) == exp
    if kg == "i" and ke != "i":
        return False
    if ke == "f" and kg == "c":
        return False
    return abs(complex(exp) - complex(got)) <= tol


# ------------------------------------------------------------------ enumeration

def span_sets(N, maxspans):
    spans = [(i, j) for i in range(N) for j in range(i, N)]
    out = [()]
    for s in spans:
        out.append((s,))
    if maxspans >= 2:
        for s, t in itertools.combinations(spans, 2):
            disjoint = s[1] < t[0] or t[1] < s[0]
            nested = (s[0] <= t[0] and t[1] <= s[1]) or (t[0] <= s[0] and s[1] <= t[1])
            if (disjoint or nested) and s != t:
                out.append((s, t))
    return out


def gen(N, operands, unaries, binops, maxspans=1, funcs=(), bare_single=False, first=None):
    """token lists: N operands, a unary prefix from `unaries` on each, all operator choices, every set of
    <= maxspans bracket spans (single-operand spans only as function applications); each span is either a
    plain bracket or, if funcs, also a function application"""
    ss = span_sets(N, maxspans)
    for ops in itertools.product(operands, repeat=N):
        if first is not None and ops[0] is not operands[first[0]]:
            continue            # `first` = (index of the first operand, of its unary prefix, of the first operator): one slice
        for us in itertools.product(unaries, repeat=N):
            if first is not None and us[0] is not unaries[first[1]]:
                continue
            for bs in itertools.product(binops, repeat=N - 1):
                if first is not None and len(first) > 2 and (bs[0] is not binops[first[2]] if N > 1 else first[2] != 0):
                    continue
                for spans in ss:
                    heads_options = []
                    ok = True
                    for (i, j) in spans:
                        opts = list(funcs)
                        if j > i and not (i == 0 and j == N - 1):
                            opts = [""] + opts
                        elif i == 0 and j == N - 1 and j > i:
                            opts = opts        # a bracket around everything adds nothing; only functions
                        if not opts:
                            ok = False
                        heads_options.append(opts)
                    if not ok:
                        continue
                    for heads in itertools.product(*heads_options):
                        out = []
                        for k in range(N):
                            if k:
                                out.append(bs[k - 1])
                            for (i, j), h in sorted(zip(spans, heads), key=lambda x: -(x[0][1] - x[0][0])):
                                if i == k:      # outer spans open first
                                    if h:
                                        out.append(h)
                                    out.append("(")
                            out.extend(us[k])
                            out.extend(ops[k])
                            for (i, j), h in sorted(zip(spans, heads), key=lambda x: x[0][1] - x[0][0]):
                                if j == k:      # inner spans close first
                                    out.append(")")
                        yield out


def literal_strings(maxlen, chars="017.eE+-jJ"):
    """every string over `chars` up to maxlen that the g4-derived lexer accepts as ONE INT/FLOAT/COMPLEX token"""
    L = lexnfa.RefLexer()
    want = {L.names.index(n): n for n in ("INT", "FLOAT", "COMPLEX")}
    out = []
    stack = [("", L.S0)]
    while stack:
        s, S = stack.pop()
        if len(s) >= maxlen:
            continue
        for c in chars:
            S2 = lexnfa.step(L.nfa, S, ord(c))
            if not S2:
                continue
            a = lexnfa.acc(L.nfa, S2)
            if a in want:
                out.append((s + c, want[a]))
            stack.append((s + c, S2))
    return sorted(out, key=lambda x: (len(x[0]), x[0]))


# ------------------------------------------------------------------ execution

def run_batch(batch):
    """batch: list of (text, exp, tol, flags); returns list of None | (key, detail)"""
    import blackbird
    from bbv.core import observe
    src = PRE + "G(" + ", ".join(b[0] for b in batch) + ") | 0\n"
    observe.reset_tables()
    try:
        vals = blackbird.loads(src).operations[0]["args"]
        if len(vals) == len(batch):
            res = [judge(b, v) for b, v in zip(batch, vals)]
            if all(r is None for r in res):
                return res
    except Exception:  # noqa
        pass
    out = []
    for b in batch:      # re-run one expression per script before reporting anything
        observe.reset_tables()
        try:
            args = blackbird.loads(PRE + "G(" + b[0] + ") | 0\n").operations[0]["args"]
            if len(args) != 1:
                out.append(("C03/argument-count", "%d arguments" % len(args)))
            else:
                out.append(judge(b, args[0]))
        except Exception as e:  # noqa
            fl = b[3]
            if fl.get("negpow") and type(e).__name__ == "ValueError" and "negative integer powers" in str(e):
                out.append(("C03/int-pow-negative-int", common.exc_sig(e)))
            elif fl.get("div_computed_int") and type(e).__name__ == "ValueError" and "negative integer powers" in str(e):
                out.append(("C03/div-by-computed-int", common.exc_sig(e)))
            else:
                out.append(("C03/raises:" + type(e).__name__, common.exc_sig(e)))
    return out


def judge(b, v):
    text, exp, tol, fl = b
    if agree(exp, tol, v, fl.get("negpow", False)):
        return None
    from bbv.core.observe import kind
    if kind(exp) != kind(v) and kind(v) in "ifc" and abs(complex(exp) - complex(v)) <= tol:
        return ("C03/kind:%s-for-%s" % (kind(v), kind(exp)), "expected %r got %r (%s)" % (exp, v, type(v).__name__))
    return ("C03/value", "expected %r got %r (%s)" % (exp, v, type(v).__name__))


def _prep(chunk):
    """chunk of token lists -> run; returns (stats, violations)"""
    st = collections.Counter()
    V = common.Violations(keep=3)
    batch = []
    L = _reflexer()

    def flush():
        if not batch:
            return
        for b, r in zip(batch, run_batch(batch)):
            st["checked"] += 1
            if r is not None:
                V.add(r[0], {"text": b[0]}, r[1])
        del batch[:]
    for toks, nospace in chunk:
        st["generated"] += 1
        forms = [(" ".join(toks), toks)]
        if nospace:
            t2 = "".join(toks)
            lexed = [t[1] for t in L.tokens(t2)]
            if lexed != list(toks):
                forms.append((t2, lexed))
            else:
                forms.append((t2, toks))
        for text, tk in forms:
            try:
                exp, tol, fl = expected(tk)
            except Bad:
                st["not_wellformed_after_relexing"] += 1
                continue
            except denote.OutOfDomain:
                st["out_of_domain"] += 1
                continue
            if any(ord(c) > 127 for c in text):
                continue
            if isinstance(exp, complex) and not any("j" in t.lower() for t in tk):
                st["out_of_domain"] += 1
                continue
            if fl.get("negpow"):
                st["int_pow_negint"] += 1
            st["nontrivial" if len(tk) > 1 else "trivial"] += 1
            batch.append((text, exp, tol, fl))
            if len(batch) >= 40:
                flush()
    flush()
    return dict(st), V.records()


_L = None


def _reflexer():
    global _L
    if _L is None:
        _L = lexnfa.RefLexer()
    return _L


def _lit_chunk(chunk):
    st = collections.Counter()
    V = common.Violations(keep=3)
    batch = []
    for text, ttype in chunk:
        try:
            exp = denote.lit(text)
        except denote.OutOfDomain:
            st["out_of_domain"] += 1
            continue
        if isinstance(exp, float) and not math.isfinite(exp):
            st["out_of_domain"] += 1
            continue
        if isinstance(exp, complex) and not cmath.isfinite(exp):
            st["out_of_domain"] += 1
            continue
        if isinstance(exp, int) and exp >= 2 ** 63:
            st["out_of_domain"] += 1
            continue
        batch.append((text, exp, 0.0 if not isinstance(exp, complex) else 0.0, {}))
    for i in range(0, len(batch), 40):
        bb_ = batch[i:i + 40]
        for b, r in zip(bb_, run_batch(bb_)):
            st["checked"] += 1
            if r is not None:
                V.add(r[0].replace("C03/", "C03/literal-"), {"text": b[0]}, r[1])
    return dict(st), V.records()


FUNC_POINTS = {
    "sqrt": ["0", "4", "2", "0.25", "1e-300", "1e300"], "exp": ["0", "1", "-1", "0.5", "-700", "700"], "log": ["1", "2", "0.5", "1e-300", "1e300", "10"],
    "sin": ["0", "1", "-2", "0.5", "pi", "100"], "cos": ["0", "1", "-2", "0.5", "pi", "100"], "tan": ["0", "1", "-2", "0.5", "pi", "1.5"],
    "arcsin": ["0", "1", "-1", "0.5", "-0.25", "1e-7"], "arccos": ["0", "1", "-1", "0.5", "-0.25", "1e-7"], "arctan": ["0", "1", "-1", "0.5", "1e300", "-7"],
    "sinh": ["0", "1", "-1", "0.5", "7", "-7"], "cosh": ["0", "1", "-1", "0.5", "7", "-7"], "tanh": ["0", "1", "-1", "0.5", "7", "-700"],
    "arcsinh": ["0", "1", "-1", "0.5", "1e300", "-7"], "arccosh": ["1", "2", "1.5", "7", "1e300", "1.0000001"], "arctanh": ["0", "0.5", "-0.5", "0.25", "1e-7", "-0.9999999"],
}


# arguments whose function value is tiny but an ordinary double (far above the subnormal range): nothing is "noise" there
for _f in ("sin", "tan", "arcsin", "arctan", "sinh", "tanh", "arcsinh", "arctanh"):
    FUNC_POINTS[_f] = FUNC_POINTS[_f] + ["1e-17", "2e-20", "-3e-19"]
FUNC_POINTS["exp"] = FUNC_POINTS["exp"] + ["-40", "-100", "-37.5"]
FUNC_POINTS["sqrt"] = FUNC_POINTS["sqrt"] + ["1e-40", "4e-36"]
FUNC_POINTS["cos"] = FUNC_POINTS["cos"] + ["1.5707963267948966", "4.71238898038469"]
FUNC_POINTS["log"] = FUNC_POINTS["log"] + ["1.0000000000000002", "0.9999999999999999"]
FUNC_POINTS["arccos"] = FUNC_POINTS["arccos"] + ["0.9999999999999999"]
FUNC_POINTS["arccosh"] = FUNC_POINTS["arccosh"] + ["1.0000000000000002"]


def _slice(task):
    """one slice (fixed first operand and first unary prefix) of one family: generated and checked in the worker"""
    specs, nospace, first = task
    st = collections.Counter()
    V = common.Violations(keep=3)
    sample = None
    n = 0
    buf = []

    def flush():
        s2, vr = _prep(buf)
        st.update(s2)
        V.merge(vr)
        del buf[:]
    for (N, operands, unaries, binops, maxspans, funcs) in specs:
        if first[0] >= len(operands) or first[1] >= len(unaries) or first[2] >= len(binops):
            continue
        for t in gen(N, operands, unaries, binops, maxspans, funcs, first=first):
            n += 1
            if sample is None and n % 97 == 0:
                sample = " ".join(t)
            buf.append((t, nospace))
            if len(buf) >= 2000:
                flush()
    if buf:
        flush()
    return dict(st), V.records(), n, sample


def run(ctx):
    six = [["2"], ["3"], ["0.5"], ["pi"], ["n"], ["x"]]
    more = six + [["7"], ["1.5e1"], ["1+2j"], ["A", "[", "1", "]"], ["A", "[", "n", "-", "1", "]"]]
    un1 = [[], ["-"]]
    un2 = [[], ["-"], ["+"], ["-", "-"], ["+", "-"]]
    seedrot = ctx.seed % len(FUNCS)
    f_q = [FUNCS[seedrot], FUNCS[(seedrot + 7) % len(FUNCS)]]
    jobs = []   # (label, [gen argument tuples], nospace?)
    G_ = lambda N, operands, unaries, maxspans=1, funcs=(): (N, operands, unaries, BINOPS, maxspans, tuple(funcs))
    if ctx.quick:
        jobs.append(("N<=3 over 6 operands, optional '-', 1 bracket span", [G_(N, six, un1) for N in (1, 2, 3)], False))
        jobs.append(("N<=2 over 11 operands, stacked signs, 1 span, 2 functions at every span, also without blanks", [G_(N, more, un2, 1, f_q) for N in (1, 2)], True))
        jobs.append(("N=3 over {2,0.5,x}, 2 functions at every span", [G_(3, [["2"], ["0.5"], ["x"]], un1, 1, f_q)], False))
        litlen = 5
    else:
        jobs.append(("N<=3 over 11 operands, optional '-', 1 span, also without blanks", [G_(N, more, un1) for N in (1, 2, 3)], True))
        jobs.append(("N=4 over {2,3,0.5,x}, optional '-', 1 span", [G_(4, [["2"], ["3"], ["0.5"], ["x"]], un1, 1)], False))
        jobs.append(("N=3 over {2,3,0.5,x}, optional '-', <=2 spans", [G_(3, [["2"], ["3"], ["0.5"], ["x"]], un1, 2)], False))
        jobs.append(("N<=2 over 11 operands, stacked signs, all 15 functions at every span, also without blanks", [G_(N, more, un2, 1, FUNCS) for N in (1, 2)], True))
        jobs.append(("N=3 over 6 operands, 1 span, 4 functions", [G_(3, six, un1, 1, FUNCS[:2] + f_q)], False))
        litlen = 7
    stats = collections.Counter()
    V = common.Violations(keep=8)
    bounds = []
    samples = []
    for label, specs, nospace in jobs:
        nop = max(len(sp[1]) for sp in specs)
        nun = max(len(sp[2]) for sp in specs)
        tasks = common.shard([(specs, nospace, (a, b, c)) for a in range(nop) for b in range(nun) for c in range(len(BINOPS))], ctx.seed)
        res = pool.pmap(_slice, tasks, chunk=1, timeout=7200)
        n0 = stats["checked"]
        ntok = 0
        for r in res:
            if r == "TIMEOUT":
                V.add("C03/no-outcome", {"text": "chunk timeout"}, "timeout")
                continue
            st, vr, n, smp = r
            stats.update(st)
            V.merge(vr)
            ntok += n
            if smp and len(samples) < 12:
                samples.append(smp)
        bounds.append({"family": label, "token_strings": ntok, "in_domain_checked": stats["checked"] - n0})
    # (b) literals
    lits = literal_strings(litlen)
    chunks = [lits[i:i + 1000] for i in range(0, len(lits), 1000)]
    lst = collections.Counter()
    for r in pool.pmap(_lit_chunk, chunks, chunk=1, timeout=1800):
        st, vr = r
        lst.update(st)
        V.merge(vr)
    bounds.append({"family": "numeric literal strings of length <= %d over {0,1,7,.,e,E,+,-,j,J} accepted by the g4-derived lexer as one INT/FLOAT/COMPLEX token" % litlen,
                   "token_strings": len(lits), "in_domain_checked": lst["checked"]})
    samples.extend(t for t, _ in common.sample(lits, 3))
    # (b') boundary literals: integers around 2**31, 2**32, 2**53 (not representable as doubles), 2**62, 2**63-1;
    # floats at the edges of the double range; and exact integer arithmetic on them (a value rounded through a
    # double is off by ~1e-16 relative, visible only where exact arithmetic cancels the high part)
    big = [2 ** 31 - 1, 2 ** 31, 2 ** 32 + 1, 2 ** 53 - 1, 2 ** 53, 2 ** 53 + 1, 9007199254740993, 2 ** 62 + 1, 2 ** 63 - 1, 123456789012345678]
    bitems = [([str(v)], False) for v in big]
    for a_, b_ in itertools.permutations(big, 2):
        for op in ("-", "+"):
            bitems.append(([str(a_), op, str(b_)], False))
    for v in big[:8]:
        bitems.append(([str(v), "*", "3"], False))
        bitems.append((["(", str(v), "-", str(v - 1), ")", "*", "5"], False))
        bitems.append(([str(v), "-", "1", "-", str(v - 2)], False))
    for f in ("1e308", "1.7976931348623157e308", "2.2250738585072014e-308", "5e-324", "4.9e-324", "1e-323", "0.1e1", "123456789.123456789", "0.30000000000000004", "9007199254740993.0", "1e22", "1e23"):
        bitems.append(([f], False))
        bitems.append(([f, "*", "1"], False))
    st, vr = _prep(bitems)
    stats.update(st)
    V.merge(vr)
    bounds.append({"family": "boundary literals (integers around 2**31..2**63-1, doubles at the range edges) and exact integer arithmetic on them", "token_strings": len(bitems), "in_domain_checked": st.get("checked", 0)})
    # (b-names) variables whose names mean something to the host language: e, tau, inf, nan, E, I
    named = [["e"], ["tau"], ["inf"], ["nan"], ["E"], ["I"], ["q1x"], ["q2_n"], ["q0a"], ["pix"], ["2"], ["0.5"], ["A", "[", "tau", "-", "1", "]"], ["A", "[", "q2_n", "]"]]
    nitems = [(t, True) for N in (1, 2) for t in gen(N, named, un1, BINOPS, 1, FUNCS[:1] + f_q[:1])]
    nitems = common.shard(nitems, ctx.seed)
    for r in pool.pmap(_prep, [nitems[i:i + 1000] for i in range(0, len(nitems), 1000)], chunk=1, timeout=1800):
        st, vr = r
        stats.update(st)
        V.merge(vr)
    bounds.append({"family": "N<=2 over variables named e, tau, inf, nan, E, I, q1x, q2_n, q0a, pix (and 2, 0.5, A[tau-1], A[q2_n]), optional '-', 1 span, 2 functions, also without blanks", "token_strings": len(nitems)})
    # (b-typed) variables declared with a wider type than their initialiser (float from an integer literal, complex from
    # a real one): later arithmetic runs in the declared type - no 64-bit wrap-around, complex roots and logarithms
    typed = [["c"], ["g"], ["w"], ["u"], ["3"], ["20"], ["0.5"], ["2"]]
    titems = [(t, False) for N in (1, 2) for t in gen(N, typed, un1, BINOPS, 1, ["sqrt", "log"])]
    titems += [(t, False) for t in gen(3, [["c"], ["g"], ["3"]], [[]], ["*", "**"], 0)]
    for r in pool.pmap(_prep, [titems[i:i + 1000] for i in range(0, len(titems), 1000)], chunk=1, timeout=1800):
        st, vr = r
        stats.update(st)
        V.merge(vr)
    bounds.append({"family": "N<=2 over variables declared float / complex with integer / real initialisers (c = 299792458, g = 10, w = -4, u = 2.5), sqrt and log at every span; N=3 products and powers of c, g, 3", "token_strings": len(titems)})
    # (b-chains) additive chains whose terms differ widely in size: + and - associate to the left, and the rounding
    # model of the tolerance (1e-12 x the largest *result of an operation* on the way) is tight where early terms cancel
    terms = [["1"], ["1e16"], ["1e-17"], ["0.1"], ["0.3"], ["3"], ["1e-7"]]
    citems = []
    for N in (3, 4):
        for ops_ in itertools.product("+-", repeat=N - 1):
            for tt in itertools.product(terms, repeat=N):
                for lead in ([], ["-"]) if N == 3 else ([],):
                    toks = list(lead)
                    for k, t_ in enumerate(tt):
                        if k:
                            toks.append(ops_[k - 1])
                        toks += t_
                    citems.append((toks, False))
    citems = common.shard(citems, ctx.seed)
    for r in pool.pmap(_prep, [citems[i:i + 1500] for i in range(0, len(citems), 1500)], chunk=1, timeout=1800):
        st, vr = r
        stats.update(st)
        V.merge(vr)
    bounds.append({"family": "additive chains of 3-4 terms over {1, 1e16, 1e-17, 0.1, 0.3, 3, 1e-7} with + and -", "token_strings": len(citems)})
    # (b'') magnitudes: every power a ** b for b in -70..70 over integer and float bases (integer results that leave
    # the 64-bit range are dropped by the reference; a negative power of an integer is a small float whatever the size
    # of |a| ** |b|), alone and inside a product
    mitems = []
    bases = [["2"], ["3"], ["7"], ["10"], ["(", "-", "3", ")"], ["n"], ["0.5"], ["1e1"], ["(", "-", "2.5", ")"]]
    for base in bases:
        for b_ in range(-70, 71):
            e_ = ["-", str(-b_)] if b_ < 0 else [str(b_)]
            mitems.append((base + ["**"] + e_, False))
            if b_ % 7 == 0:
                mitems.append((["1.6", "*"] + base + ["**"] + e_, False))
                mitems.append((base + ["**"] + e_ + ["*"] + base + ["**"] + (["-", str(b_)] if b_ > 0 else [str(-b_)]), False))
    st, vr = _prep(mitems)
    stats.update(st)
    V.merge(vr)
    bounds.append({"family": "magnitudes: a ** b for every b in -70..70 over 9 integer/float bases, alone and inside products", "token_strings": len(mitems), "in_domain_checked": st.get("checked", 0)})
    # (b3) operands a hair off whole numbers, halves and zero (relative distance 1e-5 .. 1e-15), on either side of every
    # binary operator, with and without a sign: a result 'tidied' to the special value nearby is off by far more than the tolerance
    near = ["2.000001", "1.999999", "0.999995", "1.0000001", "3.00000001", "0.5000001", "0.49999999", "1e-9", "1e-12", "2.0000000001", "0.99999999999", "1.000000000000001", "6.99999"]
    others = [["2"], ["3"], ["10"], ["0.5"], ["1.5"], ["n"], ["x"], ["(", "-", "2", ")"], ["pi"]]
    nitems = []
    for e_ in near:
        for o_ in others:
            for op_ in ("+", "-", "*", "/", "**"):
                nitems.append((o_ + [op_, e_], False))
                nitems.append(([e_, op_] + o_, False))
                nitems.append((o_ + [op_, "-", e_], False))
        for f in ("sqrt", "exp", "log", "arccos", "cos"):
            nitems.append(([f, "(", e_, ")"], False))
    st, vr = _prep(nitems)
    stats.update(st)
    V.merge(vr)
    bounds.append({"family": "operands a hair off whole numbers / halves / zero (13 literals) on either side of each binary operator x 9 other operands; under 5 functions", "token_strings": len(nitems), "in_domain_checked": st.get("checked", 0)})
    # (c) functions at domain points
    fitems = [([f, "(", p, ")"] if not p.startswith("-") else [f, "(", "-", p[1:], ")"], False) for f in FUNCS for p in FUNC_POINTS[f]]
    st, vr = _prep(fitems)
    stats.update(st)
    V.merge(vr)
    bounds.append({"family": "15 functions x 6-9 domain points incl. boundaries and arguments with tiny (1e-17 .. 1e-44) results", "token_strings": len(fitems), "in_domain_checked": st.get("checked", 0)})
    # (d) a function of a function: ALL ordered pairs f(g(p)) of the 15 functions at arguments inside and outside the
    # principal ranges of the inverse functions (arcsin(sin(2)) is pi - 2, arccosh(cosh(-2)) is 2, log(exp(1+10j)) wraps)
    pts = ["2", "-1", "-2", "0.5", "4", "10", "0.25", "-7", "1+10j", "0.5j"]
    ffitems = [([f, "(", g, "("] + ([p_] if not p_.startswith("-") else ["-", p_[1:]]) + [")", ")"], False) for f in FUNCS for g in FUNCS for p_ in pts]
    st, vr = _prep(ffitems)
    stats.update(st)
    V.merge(vr)
    bounds.append({"family": "function of a function: all 225 ordered pairs f(g(p)) x 10 arguments inside and outside the principal ranges of the inverse functions", "token_strings": len(ffitems), "in_domain_checked": st.get("checked", 0)})
    cov = {
        "evaluations": stats["checked"] + lst["checked"], "distinct_nontrivial": stats["nontrivial"] + lst["checked"],
        "rule": "all well-formed token strings of the families in `bounds` (every operand tuple x unary prefix x operator tuple x bracket/function span set), each evaluated by the implementation "
                "(40 per script, failing batches re-run singly) and by the reference (precedence climbing from the property's binding order, exact ints / IEEE doubles / cmath); "
                "non-trivial = >= 1 operator or function or a literal form; distinct by construction (generator never repeats a token string)",
        "samples": samples, "exhaustive": True, "bounds": bounds,
        "generated": stats["generated"], "out_of_domain_dropped": stats["out_of_domain"] + lst["out_of_domain"],
        "relexed_not_wellformed": stats["not_wellformed_after_relexing"], "int_pow_negative_int_cases": stats["int_pow_negint"],
    }
    return {"coverage": cov, "violations": V.records(),
            "assumptions": ["tolerance: 1e-12 x largest intermediate magnitude + 8 x |difference between the two roundings of a/b| (sensitivity probe), integers exact and of integer kind",
                            "values outside int64 / non-finite / outside real function domains are dropped by the reference (exact arithmetic), never because the implementation raised"]}


def replay(case):
    text = case["text"]
    if text == "chunk timeout":
        return False, "n/a"
    toks = [t[1] for t in _reflexer().tokens(text)]
    try:
        exp, tol, fl = expected(toks)
    except (Bad, denote.OutOfDomain) as e:
        return False, "not in domain: %r" % (e,)
    r = run_batch([(text, exp, tol, fl)])[0]
    return (r is not None), repr(r)
