"""C06  A for-loop is equivalent to its textual unrolling.

Differential oracle: operations/modes of loads(S_loop) == those of loads(unroll(S_loop)), where unroll writes
the body once per value with the loop variable replaced by a bracketed literal of the declared type; the
values come from Python's range / the written list (the model's range semantics).  Plus: a later use of
the loop variable raises, a listed value of the wrong type raises, empty ranges contribute nothing.
"""
import collections
import itertools

from bbv.core import pool, observe
from . import common

LEVEL = "exploration"
H = "name a\nversion 1.0\n\nint n = 2\nstr w9 = \"x\"\nbool t9 = True\nfloat y9 = 0.25\nfloat array A =\n    1.5, 2.5, 3.5, 4.5, 5.5, 6.5, 7.5\n"
V = "§"   # placeholder for the loop variable in body templates


def lit(t, v):
    if t == "int":
        return "(%d)" % int(v)
    if t == "float":
        return "(%r)" % float(v)
    if t == "bool":
        return "True" if v else "False"
    return '"%s"' % v


def headers(ctx):
    hs = []
    R = range(4) if ctx.quick else range(6)
    for t in ("int", "float"):
        for a, b in itertools.product(R, repeat=2):
            hs.append((t, "%d:%d" % (a, b), list(range(a, b)), "range"))
            for c in (1, 2, 3):
                hs.append((t, "%d:%d:%d" % (a, b, c), list(range(a, b, c)), "range"))
    lists = [("int", ["0", "2"], [0, 2]), ("int", ["3"], [3]), ("int", ["n", "n+1", "0"], [2, 3, 0]), ("int", ["1", "1", "2*n"], [1, 1, 4]),
             ("int", ["-2", "0", "3"], [-2, 0, 3]), ("int", ["0", "0"], [0, 0]), ("int", ["2", "1", "2"], [2, 1, 2]),
             ("float", ["0.5", "1"], [0.5, 1.0]), ("float", ["n/4"], [0.5]), ("float", ["-1.5", "2", "A[1]"], [-1.5, 2.0, 2.5]),
             ("bool", ["True", "False"], [True, False]), ("bool", ["False"], [False]),
             ("str", ['"a"', '"b"'], ["a", "b"]), ("str", ['"x y"'], ["x y"]),
             # literals and references to declared variables / expressions mixed, in every relative order (the values run in the order listed)
             ("str", ['"y"', "w9", '"z"'], ["y", "x", "z"]), ("str", ["w9", '"y"'], ["x", "y"]), ("str", ['"y"', '"z"', "w9"], ["y", "z", "x"]),
             ("bool", ["False", "t9", "False"], [False, True, False]), ("bool", ["t9", "False"], [True, False]), ("bool", ["False", "False", "t9"], [False, False, True]),
             ("float", ["0.5", "y9", "2", "2*y9", "A[0]"], [0.5, 0.25, 2.0, 0.5, 1.5]), ("int", ["5", "n", "1", "n*n", "0"], [5, 2, 1, 4, 0])]
    for br in ("[%s]", "(%s)", "%s"):
        for t, items, vals in lists:
            hs.append((t, br % ", ".join(items), vals, "list"))
    return hs


BODIES = [
    ["G(%s) | 0" % V], ["G | %s" % V], ["G(k=%s) | [%s, %s+1]" % (V, V, V)], ["G(k=[%s, 1]) | 0" % V], ["G(A[%s]) | 0" % V], ["G | 0"],
    ["G(%s) | 0" % V, "H(%s+1) | 1" % V], ["G | %s" % V, "H(2*%s) | (%s, 0)" % (V, V)], ["MeasureX | %s" % V, "G(1, %s, k=%s) | 7" % (V, V)],
]
# every expression form around the loop variable (the loop re-evaluates the same parse-tree nodes once per value)
BODIES += [["G(sqrt(%s)) | 0" % V], ["G(sin(%s)+1, k=exp(-%s)) | 0" % (V, V)], ["G(%s**2, (%s), -%s) | 0" % (V, V, V)], ["G(2**%s, 1/(%s+1)) | 0" % (V, V)],
           ["G(A[%s]*2, k=[%s, A[%s]]) | 0" % (V, V, V)], ["G(log(%s+1)*%s) | 0" % (V, V), "H(arctan(%s)) | 1" % V]]
# bodies of several statements of different syntactic kinds: differently named measurements, gates with and without arguments
BODIES += [["MeasureX | %s" % V, "MeasureP | %s+2" % V, "G(%s) | %s" % (V, V), "MeasureHomodyne(phi=%s) | 0" % V], ["MeasureX | 0", "Vac | 1", "MeasureP(%s) | 1" % V, "MeasureFock | [0, 1]", "Vac | 2"]]
BODIES_T = [["G(%s) | 0" % V, "H | 1", "K(%s*%s) | 2" % (V, V)], ["G(-%s) | [0, %s+2]" % (V, V)]]

WRONG = [("int", "[0.5]"), ("int", "[1, 2.5]"), ("int", '["a"]'), ("int", "1, 0.5"), ("str", "[1]"), ("str", '["a", 2]'), ("float", '["a"]'),
         ("bool", "[2]"), ("bool", '[True, "x"]'), ("int", "(1+2j)"), ("float", "[1+2j]"),
         # values just beside a value of the loop type, small and large (a tolerance has no place in a type check)
         ("int", "[3.00001]"), ("int", "[7.000000001]"), ("int", "[123456.5]"), ("int", "[1, 2000000.25]"), ("int", "[0.29*100]"), ("int", "[1e15+0.5]"), ("int", "[2.9999999999999996]"),
         ("int", "[0, -0.0000001]"), ("int", "[250000+3/4]"), ("bool", "[0.5]"), ("bool", "[1.0000001]"), ("bool", "[True, 1e-9]"), ("int", "[2.0, 3.7]"), ("int", "6/2, 7/2"), ("bool", "(1, 2)"), ("int", "[1, 2.0, 2.5]"), ("bool", "[True, 1, 3]"), ("float", "[1+1e-12j]"), ("float", "[0.5, 2-1e-9j]"), ("int", "[4+1e-12j]")]


# bodies for loop types that are not numbers (the variable is an argument, a keyword value or a list element)
BODIES_NN = [["G(%s) | 0" % V], ["G(k=[%s, 1]) | 0" % V], ["G | 0"], ["G(1, %s, k=%s) | 7" % (V, V), "H(l=[%s]) | 1" % V], ["G(%s) | 0" % V, "H(%s, %s) | [1, 2]" % (V, V)]]


def usable(t, body):
    if t in ("bool", "str"):
        return body in BODIES_NN
    s = " ".join(body)
    numeric_use = any(x in s for x in ("%s+" % V, "2*%s" % V, "%s*" % V, "-%s" % V, "(%s)" % V, "**%s" % V, "%s**" % V, "(%s+" % V))
    mode_use = ("A[%s]" % V in s) or ("| %s" % V in s) or ("[%s," % V in s) or ("(%s," % V in s) or ("A[%s]" % V in s) or (", %s+" % V in s)
    if t in ("bool", "str") and (numeric_use or mode_use):
        return False
    if t == "float" and mode_use:
        return False
    return True


def ops_of(p):
    return tuple(observe.op_canon(o, exact=True) for o in p.operations), tuple(sorted(int(m) for m in p.modes)), len(p)


def outcome(text):
    st, p = common.loads(text)
    if st == "exc":
        return ("EXC", type(p).__name__, str(p)[:80])
    return ops_of(p)


def pair_case(c):
    t, h, vals, body, pre, post, second = c
    loop = "for %s i in %s\n" % (t, h) + "".join("    " + s.replace(V, "i") + "\n" for s in body)
    unr = "".join(s.replace(V, lit(t, v)) + "\n" for v in vals for s in body)
    if second:
        loop += "for int i in [5]\n    Z(i) | i\n"
        unr += "Z((5)) | (5)\n"
    a = outcome(H + pre + loop + post)
    b = outcome(H + pre + unr + post)
    if a == b and not (isinstance(a, tuple) and a and a[0] == "EXC"):
        return None
    if isinstance(b, tuple) and b and b[0] == "EXC":
        return ("C06/harness-unrolled-script-raises", "unrolled script raises %r\n%s" % (b, unr))
    if isinstance(a, tuple) and a and a[0] == "EXC":
        if not vals and a[1] == "KeyError":
            return ("C06/empty-range-raises", "loop over an empty range raises %r" % (a,))
        return ("C06/loop-raises:" + a[1], "loop raises %r but its unrolling loads" % (a,))
    return ("C06/loop-differs-from-unrolling" + ("-empty" if not vals else ""), "loop: %r\nunrolled: %r" % (a, b))


def after_case(c):
    t, h, vals = c
    text = H + "for %s i in %s\n    G(i) | 0\nQ(i) | 1\n" % (t, h)
    st, p = common.loads(text)
    if st == "ok":
        return ("C06/loop-variable-visible-after-loop", "Q(i) after the loop loaded: operations %r" % ([(o["op"], o.get("args")) for o in p.operations][-3:],))
    if not common.is_bbsyntax(p) and not (not vals and type(p).__name__ == "KeyError"):
        return ("C06/after-loop-use-wrong-exception:" + type(p).__name__, common.exc_sig(p))
    if not vals and type(p).__name__ == "KeyError":
        return ("C06/empty-range-raises", common.exc_sig(p))
    return None


def wrong_case(c):
    t, h = c
    text = H + "for %s i in %s\n    G(i) | 0\n" % (t, h)
    st, p = common.loads(text)
    if st == "ok":
        return ("C06/wrong-type-value-accepted", "for %s i in %s loaded: %r" % (t, h, [o.get("args") for o in p.operations]))
    return None


def wrong_child_case(c):
    t, h, flags = c
    text = H + "for %s i in %s\n    G(i) | 0\n" % (t, h)
    if common.loads_in_child(([text], flags))[0] == "ok":
        return ("C06/wrong-type-value-accepted:python " + " ".join(flags), "for %s i in %s loaded in an interpreter started with %s" % (t, h, " ".join(flags)))
    return None


FAM = {"pair": pair_case, "after": after_case, "wrong": wrong_case, "wrongchild": wrong_child_case}


@common.guarded("C06")
def _case(c):
    return FAM[c[0]](c[1])


def build(ctx):
    cases = []
    hs = headers(ctx)
    bodies = BODIES + ([] if ctx.quick else BODIES_T)
    if not ctx.quick:
        singles = [b for b in BODIES if len(b) == 1]
        bodies = bodies + [a + b for a in singles for b in singles if a != b]
    ctxs = [("", "", False), ("P(n) | 5\n", "Q(n) | 6\n", False), ("float x = 0.5\n", "", True), ("", "R(n, A[0]) | [1, 0]\n", True),
            # an earlier loop, then a declaration / re-declaration, then the loop, then a statement that uses the variable
            ("for int j in [4]\n    Y(j) | 0\nfloat w = 2.5\n", "R(w) | 1\n", False),
            ("float w = 1.0\nfor int j in 0:2\n    Y(j, w) | j\nfloat w = 5.0\n", "R(w, n) | 1\n", True)]
    for (t, h, vals, kind), body in itertools.product(hs, bodies + [b for b in BODIES_NN if b not in bodies]):
        if not usable(t, body):
            continue
        if any("A[%s]" % V in s for s in body) and any(not (0 <= v < 7) for v in vals):
            continue
        for pre, post, second in ctxs:
            cases.append(("pair", (t, h, vals, body, pre, post, second)))
    for t, h, vals, kind in hs:
        cases.append(("after", (t, h, vals)))
    for t, h in WRONG:
        cases.append(("wrong", (t, h)))
    return cases


def run(ctx):
    cases = common.shard(build(ctx), ctx.seed)
    res = pool.pmap(_case, cases, chunk=40)
    Vs = common.Violations(keep=6)
    fam = collections.Counter()
    empties = 0
    for c, r in zip(cases, res):
        fam[c[0]] += 1
        if c[0] == "pair" and not c[1][2]:
            empties += 1
        if r == "TIMEOUT":
            Vs.add("C06/no-outcome", {"case": repr(c)}, "timeout")
        elif r is not None:
            Vs.add(r[0], {"case": repr(c)}, r[1])
    # the refusal cases once more in interpreters started with -O and -OO (every process refuses a wrong-typed value)
    texts = [H + "for %s i in %s\n    G(i) | 0\n" % (t, h) for t, h in WRONG]
    for flags, outs in zip((["-O"], ["-OO"]), pool.pmap(common.loads_in_child, [(texts, ["-O"]), (texts, ["-OO"])], chunk=1, timeout=1200)):
        for (t, h), o in zip(WRONG, outs if isinstance(outs, list) else []):
            fam["wrongchild"] += 1
            if o == "ok":
                Vs.add("C06/wrong-type-value-accepted:python " + " ".join(flags), {"case": repr(("wrongchild", (t, h, flags)))}, "for %s i in %s loaded in an interpreter started with %s" % (t, h, " ".join(flags)))
    cov = {"evaluations": len(cases) + fam["wrongchild"], "distinct_nontrivial": len(cases) - empties + fam["wrongchild"],
           "rule": "every loop header (int/float ranges a:b, a:b:c over a,b in 0..3 (thorough 0..4), c in 1..3; value lists of int/float/bool/str values and expressions in three bracket styles) x every body "
                   "(loop variable in argument, keyword, list element, mode, second mode, array index, arithmetic, unused; 1-2 (thorough 3) statements) x 6 contexts (nothing; statement before and after; "
                   "declaration before + a second loop reusing the variable; statement after + second loop; an earlier loop and a declaration before, a use of it after; a re-declaration between two loops); plus use of the variable after every loop and wrong-type lists. "
                   "non-trivial = non-empty loop or refusal case (empty ranges counted separately: %d); distinct by construction" % empties,
           "samples": [repr(c) for c in common.sample(cases, 5)], "exhaustive": True, "by_family": dict(fam), "empty_range_cases": empties}
    return {"coverage": cov, "violations": Vs.records(),
            "assumptions": ["values such as 1.0 or True in an int loop are not used as refusal cases (arguably of the loop type after conversion)"]}


def replay(case):
    import ast
    r = _case(ast.literal_eval(case["case"]))
    return (r is not None), repr(r)
