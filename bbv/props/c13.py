"""C13  Read-only operations leave programs unchanged; instances are independent.

Explicit-state BFS over event sequences on real objects.  State = (digest(P), digest(I_0), ...); every
transition replays the history on freshly loaded objects (deepcopy is not trusted: deep-copy behaviour is
part of what is checked) and evaluates the invariant: P's digest never changes; I_k's digest changes only
by mutations addressed to I_k; a template call with the same values always gives the same digest.
"""
import collections
import hashlib

from bbv.core import pool, observe
from . import common

LEVEL = "model_checking"
H = "name a\nversion 1.0\n"

PROGS = collections.OrderedDict([
    ("nobrackets", H + "\nG | 0\nH({a}) | 1\nK() | 0\n"),
    ("listkw", H + "\nG({a}, k=[1, 2]) | 0\nH(l=[\"x\"]) | 1\n"),
    ("sharedarray", H + "\nfloat array A =\n    1.5, 2.5\nG(A, {a}) | 0\nH(A) | 1\n"),
    ("complexarray", H + "\ncomplex array U =\n    1-2j, -0.5j\n    -3+0j, 2+1j\nint array W =\n    -1, 2\nG(U, {a}) | 0\nH(k=U, w=W) | 1\n"),
    ("regref", H + "\nMeasureX | 0\nG(2*q0, {a}) | 1\nH(k=q0+q1) | 2\nMeasure | 1\n"),
    ("tdm", H + "type tdm (temporal_modes=2)\n\nfloat array p0 =\n    0.5, 1.5\nint array p1 =\n    1, 2\nG(p0, {a}) | 0\nH(p1) | 1\n"),
    ("scalarvar", H + "\nfloat x = {a}\nG(x) | 0\nH() | 0\n"),
    ("arrayparams", H + "\nfloat array A =\n    {a}, 1\n    2, {b}\nG({a}) | 0\n"),
    ("wholearray", H + "\nfloat array A[1, 2] =\n    {P}\nG({a}) | 0\n"),
    ("wholearray2x2", H + "\nfloat array A[2, 2] =\n    {P}\nG(A, {a}) | 0\nH(k=A[3]) | 1\n"),
    ("options", H + "target g (l=[1, 2], s=\"a\")\n\nG({a}) | 0\nG | 1\n"),
    ("twoparams", H + "\nG({a}+{b}, k={a}*2) | [0, 1]\nG({b}) | 1\n"),
    ("loop", H + "\nfor int i in 0:2\n    G({a}, i) | i\n"),
    ("plain", H + "\nG | 0\nH(1.5, k=[1]) | 1\nK() | [0, 1]\n"),
    ("regref-negpow", H + "\nMeasureX | 0\nG(-(q0**2)*q1, {a}) | 2\nH(p=-(q1**3)) | 3\n"),
    # transforms of two and three registers (whatever order each lists its registers in, it stays paired with its function)
    ("regref-multi", H + "\nMeasureX | 0\nG(q1 - 3*q0, {a}) | 2\nH(k=q3*q0 - q1/2) | 4\nK(q10 + q2*q0, 0.5) | 5\nG(q2 - q1**2, k=q7/q5) | 6\n"),
    ("pstring", H + "\nG(\"p1\", {a}, tag=\"p20\", l=[\"p0\"]) | 0\n"),
    ("affine", H + "\nG(2*{a}-1, 1-{b}/3) | 0\nH(k=0.5*{a}*{b}-{a}+2) | 1\n"),
    ("unsimplified", H + "\nG(({a}**2 - 1)/({a} - 1), {a}*({a}+2) - {a}**2) | 0\nH(k=({a}+{b})**2 - {a}**2, l=[({b}**2-4)/({b}+2)]) | 1\n"),
    ("tdm-template", H + "type tdm (temporal_modes=3)\n\nfloat array p0 =\n    0.5, 1.5\nG(p0, {a}) | 0\n"),
])
V1 = {"a": 0.5, "b": 2.0, "P": [[1.0, 2.0]]}
V2 = {"a": -1.0, "b": 3.0, "P": [[3.0, 4.0]]}
ARRAY_PROGS = ("wholearray", "wholearray2x2")     # templates with an array-valued parameter: the caller may pass an ndarray of its own


def caller_values(key):
    """fresh argument objects of the caller for one replay: the SAME ndarray is handed to every `call1n`"""
    import numpy as np
    shape = (2, 2) if key == "wholearray2x2" else (1, 2)
    return {"a": 0.5, "b": 2.0, "P": (np.arange(shape[0] * shape[1], dtype=np.float64).reshape(shape) + 1.0)}


def _p(vals, key):
    if key == "wholearray2x2" and not hasattr(vals["P"], "shape"):
        return dict(vals, P=[[vals["P"][0][0], vals["P"][0][1]], [5.0, 6.0]])
    return vals
# a second template ("pattern") per tdm program with a parameter where the program names a p-array: matching it against an
# instance returns that instance's array under the parameter's name (a view of the MATCHED program, as the result says);
# the caller then edits what it was given
PATTERNS = {"tdm": H + "type tdm (temporal_modes=2)\n\nG({x}, {a}) | 0\nH({y}) | 1\n", "tdm-template": H + "type tdm (temporal_modes=3)\n\nG({x}, {a}) | 0\n"}
EVENTS = ["dumps", "read", "graph", "mutgraph", "other", "badcall", "badmatch", "call1", "call2", "call1b", "call1n", "mutcaller", "dumpsI0", "graphI0", "graphI1", "match0", "match1", "patmatch0", "patmatch1",
          "mut0:arg", "mut0:list", "mut0:arr", "mut0:opt", "mut0:op", "mut0:gate", "mut0:var", "mut0:modes", "mut0:rrt", "mut1:arg", "mut1:arr"]
MAXINST = 3


def graph_canon(p):
    """what to_DiGraph shows of the program (a third way of observing it, next to dumps and the attributes)"""
    from blackbird.utils import to_DiGraph
    try:
        g = to_DiGraph(copy_ops_guard(p))
        return (tuple(sorted((n, str(d.get("name")), observe.canon(list(d.get("args", []))), observe.canon(dict(d.get("kwargs", {}))), tuple(d.get("modes", ()))) for n, d in g.nodes(data=True))),
                tuple(sorted(g.edges())))
    except Exception as e:  # noqa
        return ("graph-exc", type(e).__name__)


def copy_ops_guard(p):
    return p


def digest(p):
    """content through the attributes FIRST (taking a digest itself serialises and builds a graph: whatever those do
    to the object shows in the next digest's first component), then the text, the graph, and the content again"""
    def content():
        try:
            return observe.prog_canon(p, exact=True, variables=True, argskey=True)
        except Exception as e:  # noqa
            return ("canon-exc", type(e).__name__)
    c0 = content()
    st, txt = common.dumps(p)
    if st == "exc":
        txt = "EXC:" + type(txt).__name__
    g = graph_canon(p)
    return hashlib.sha1(repr((c0, txt, g, content())).encode()).hexdigest()[:16]


def explain(p):
    st, txt = common.dumps(p)
    return (txt if st == "ok" else "EXC:" + type(txt).__name__) + " || " + repr([sorted(o.keys()) for o in p.operations])


def pvals(T, vals):
    names = set()
    for n in T.parameters:
        names.add(n.split("_")[0] if n.startswith("P_") else n)
    return {k: vals[k] for k in names}


def enabled(ev, ninst, is_template, key=None):
    if ev == "badcall" and not is_template:
        return False
    if ev in ("call1n", "mutcaller") and key not in ARRAY_PROGS:
        return False
    if ev.startswith("patmatch"):
        return key in PATTERNS and int(ev[8:]) < ninst
    if ev.startswith("call"):
        return is_template and ninst < MAXINST
    for tag in ("I0", "h0", "t0:", "I1", "h1", "t1:"):
        if tag in ev:
            k = int(tag.strip("Iht:"))
            if ev.startswith("match") and not is_template:
                return False
            return k < ninst
    return True


def apply_event(T, inst, ev, key=None, caller=None):
    """returns index of the instance the event is allowed to change (or None; 'caller' for the caller's own array)"""
    import blackbird
    import numpy as np
    from blackbird.utils import to_DiGraph, match_template
    if ev == "dumps":
        common.dumps(T)
    elif ev == "read":
        _ = (T.name, T.version, T.target, T.programtype, T.operations, T.parameters, T.variables, T.modes, T.is_template(), len(T))
        for o in T.operations:
            _ = (o.get("args"), o.get("kwargs"), o["modes"], o["op"])
    elif ev == "badcall":
        # calls that are refused: a value missing, a value too many of the wrong shape, an array value of the wrong dimension
        import numpy as np_
        names = sorted(n.split("_")[0] if n.startswith("P_") else n for n in T.parameters)
        for bad in ({}, dict.fromkeys(names[:-1], 0.5), dict({n: 0.5 for n in names}, **({"P": [1.0, 2.0]} if "P" in names else {"zz_unknown": [1.0]})), {n: [1.0, 2.0] for n in names}):
            try:
                T(**bad)
            except Exception:  # noqa
                pass
    elif ev == "badmatch":
        # matches that are refused: against another program, and against the program with one operation removed
        st_, O = common.loads(H + "\nZ(1) | 0\nY | [0, 1]\nX(0.5) | 2\n")
        for other in ([O] if st_ == "ok" else []) + list(inst[:1]):
            for a_, b_ in ((T, other), (other, T)):
                try:
                    match_template(a_, b_)
                except Exception:  # noqa
                    pass
    elif ev == "other":
        # something is done with ANOTHER, unrelated program in between (a tdm template: loaded, serialised, instantiated, drawn)
        st_, O = common.loads(H + "type tdm (temporal_modes=2)\n\nfloat array p1 =\n    0.5, 1.5\nint array p20 =\n    1, 2\nSgate(p1, {a}) | 0\nMeasureHomodyne(phi=p20) | 0\n")
        if st_ == "ok":
            common.dumps(O)
            try:
                common.dumps(O(a=0.5))
                to_DiGraph(O)
            except Exception:  # noqa
                pass
    elif ev == "graph":
        to_DiGraph(T)
    elif ev == "mutgraph":
        # the caller works on a graph it was given: node data are edited in place (returned objects are the caller's)
        # Only data that can belong to the graph alone are touched: the argument containers of nodes whose operation
        # has no `args` key (the program holds no container they could be a view of) and the graph's own structure.
        # Node data that are the program's own lists (a view, like program.operations itself) are left alone.
        g = to_DiGraph(T)
        for n, d in g.nodes(data=True):
            if "args" not in T.operations[n]:
                if isinstance(d.get("args"), list):
                    d["args"].append(99)
                if isinstance(d.get("kwargs"), dict):
                    d["kwargs"]["zz"] = 1
        g.add_edge(0, 0)
        g.add_node(77, name="extra")
    elif ev in ("call1", "call1b"):
        inst.append(T(**pvals(T, _p(V1, key))))
    elif ev == "call2":
        inst.append(T(**pvals(T, _p(V2, key))))
    elif ev == "call1n":
        inst.append(T(**pvals(T, caller)))          # the caller's own ndarray, the same object at every call
    elif ev == "mutcaller":
        caller["P"].flat[0] = -55.0                 # the caller goes on using its array after the calls
        return "caller"
    elif ev.startswith("dumpsI"):
        common.dumps(inst[int(ev[6:])])
    elif ev.startswith("graphI"):
        to_DiGraph(inst[int(ev[6:])])
    elif ev.startswith("patmatch"):
        k = int(ev[8:])
        st_, PAT = common.loads(PATTERNS[key])
        res = {}
        if st_ == "ok":
            try:
                res = match_template(PAT, inst[k])
            except Exception:  # noqa
                res = {}
        for v in (res or {}).values():
            if isinstance(v, np.ndarray) and v.size:
                v.flat[0] = -55           # the result is the caller's: what it shows of the matched program may follow, nothing else
        return k
    elif ev.startswith("match"):
        try:
            match_template(T, inst[int(ev[5:])])
        except Exception:  # noqa  (a refused match is fine here; C17 is about its verdict)
            pass
    elif ev.startswith("mut"):
        k = int(ev[3])
        kind = ev[5:]
        I = inst[k]
        ops = I.operations
        if kind == "arg":
            for o in ops:
                if o.get("args"):
                    o["args"][0] = 99
                    break
        elif kind == "list":
            for o in ops:
                for v in o.get("kwargs", {}).values():
                    if isinstance(v, list):
                        v.append(7)
            for v in I.target["options"].values():
                if isinstance(v, list):
                    v.append(7)
        elif kind == "arr":
            for o in ops:
                for v in list(o.get("args", [])) + list(o.get("kwargs", {}).values()):
                    if isinstance(v, np.ndarray) and v.size:
                        v.flat[0] = -77
            for v in I.variables.values():
                if isinstance(v, np.ndarray) and v.size:
                    v.flat[0] = -77
        elif kind == "opt":
            I.target["options"]["zz"] = 1
            I.programtype["options"]["zz"] = 1
        elif kind == "op":
            ops.append({"op": "New", "modes": [5]})
        elif kind == "gate":
            ops[0]["op"] = "Renamed"
        elif kind == "var":
            I.variables["newvar"] = 3
        elif kind == "rrt":
            for o in ops:
                for v in list(o.get("args", [])) + list(o.get("kwargs", {}).values()):
                    if type(v).__name__ == "RegRefTransform":
                        v.regrefs.append(42)
                        v.func_str = "mutated"
        elif kind == "modes":
            ops[-1]["modes"].append(9)
            I.modes.add(9)
        return k
    return None


def _evkind(ev, kind):
    if ev == "mutgraph":
        return "editing-a-returned-graph"
    if ev == "mutcaller":
        return "the-caller-editing-its-own-array"
    return kind if not ev.startswith("mut") else "mutating-an-instance"


def build(key, hist):
    """replay `hist` on fresh objects; returns (state digests, violations of the LAST event, ninst, is_template)"""
    st, T = common.loads(PROGS[key])
    if st != "ok":
        raise RuntimeError("harness: program %s does not load: %r" % (key, T))
    inst = []
    viol = []
    first_call = {}
    is_t = T.is_template()
    caller = caller_values(key) if key in ARRAY_PROGS else None
    cdig = lambda: None if caller is None else repr(caller["P"].tolist())
    for n, ev in enumerate(hist):
        last = (n == len(hist) - 1)
        if last:
            bT = digest(T)
            bI = [digest(i) for i in inst]
            expl_before = explain(T)
            bC = cdig()
        try:
            touched = apply_event(T, inst, ev, key, caller)
        except Exception as e:  # noqa
            # an event that works from the initial state (every event does) fails after this history
            if last:
                viol.append(("C13/%s-fails-after-earlier-events:%s" % (ev.rstrip("0123456789b"), type(e).__name__), "event %s after %r raises %s" % (ev, hist[:-1], common.exc_sig(e))))
            break
        if ev.startswith("call"):
            tag = "v2" if ev == "call2" else ("v1n:" + cdig() if ev == "call1n" else "v1")
            dnew = digest(inst[-1])
            if tag in first_call and first_call[tag] != dnew and last:
                viol.append(("C13/instantiation-not-reproducible", "%s after %r differs from the first instance with the same values: %s" % (ev, hist[:-1], explain(inst[-1])[:300])))
            first_call.setdefault(tag, dnew)
            if last and (inst[-1].parameters or inst[-1].is_template()):
                pass   # C04's subject
        if last:
            aT = digest(T)
            aI = [digest(i) for i in inst]
            kind = ev.split(":")[0].rstrip("0123456789").replace("I", "")
            if cdig() != bC and touched != "caller":
                viol.append(("C13/%s-changes-the-callers-array" % _evkind(ev, kind),
                             "event %s after %r changed the array the caller had passed as a parameter value: %s -> %s" % (ev, hist[:-1], bC, cdig())))
            if aT != bT:
                viol.append(("C13/%s-changes-the-program" % _evkind(ev, kind),
                             "event %s after %r changed the template/program: before %s ;; after %s" % (ev, hist[:-1], expl_before[:400], explain(T)[:400])))
            for k, (b, a) in enumerate(zip(bI, aI)):
                if b != a and k != touched:
                    viol.append(("C13/%s-changes-another-instance" % _evkind(ev, kind),
                                 "event %s after %r changed instance %d: %s" % (ev, hist[:-1], k, explain(inst[k])[:300])))
    state = (digest(T),) + tuple(digest(i) for i in inst) + ((cdig(),) if caller is not None else ())
    return state, viol, len(inst), is_t


def _build_task(task):
    key, hist = task
    return build(key, list(hist))


def _trans(task):
    """every history runs in a fresh fork of a process that has imported the package and warmed the generated parser,
    but has never loaded, serialised or instantiated anything: whatever the implementation keeps at module level
    starts from its import-time value in every history"""
    from bbv.core import forked
    r = forked.run_forked(_build_task, task, timeout=600)
    if r[0] != "ok":
        raise RuntimeError("history %r failed: %r" % (task, r))
    return r[1]


def warm_parser():
    # third-party machinery that is slow the first time it is used in a process (lazy imports, code generation):
    # exercised here through its own API only, never through blackbird
    import sympy as sym
    import networkx as nx
    x, y = sym.symbols("x y")
    sym.lambdify([x, y], 2 * x - y / 3 + 1)(1.0, 2.0)
    sym.lambdify([x], sym.sqrt(x) + x ** 2)(2.0)
    str(2 * x - 1), sym.srepr(x * y), sym.solve(2 * x - 1 - 0.5, x), (x * y).subs({x: 1.5}).evalf(30)
    g = nx.DiGraph()
    g.add_edge(0, 1)
    nx.is_isomorphic(g, g)
    import antlr4
    from blackbird.blackbirdLexer import blackbirdLexer
    from blackbird.blackbirdParser import blackbirdParser
    for text in PROGS.values():
        try:
            ps = blackbirdParser(antlr4.CommonTokenStream(blackbirdLexer(antlr4.InputStream(text))))
            ps.removeErrorListeners()
            ps.start()
        except Exception:  # noqa
            pass


def run(ctx):
    depth = 3 if ctx.quick else 4
    V = common.Violations(keep=6)
    states_total = trans_total = 0
    per_prog = {}
    samples = []
    keys = common.shard(list(PROGS), ctx.seed)
    cap_hit = False
    warm_parser()
    for key in keys:
        s0, _, n0, is_t = _trans((key, ()))
        seen = {s0: ((), 0, is_t)}
        frontier = [()]
        trans = 0
        for d in range(depth):
            tasks = []
            for h in frontier:
                ninst = hist_ninst(h)
                for ev in EVENTS:
                    if enabled(ev, ninst, is_t, key):
                        tasks.append((key, h + (ev,)))
            if len(tasks) > (40000 if ctx.quick else 400000):
                cap_hit = True
                tasks = tasks[:40000 if ctx.quick else 400000]
            res = pool.pmap(_trans, tasks, chunk=16)
            nxt = []
            for (k_, h), r in zip(tasks, res):
                trans += 1
                if r == "TIMEOUT":
                    V.add("C13/no-outcome", {"program": key, "history": list(h)}, "timeout")
                    continue
                state, viol, ninst, _ = r
                for vk, vd in viol:
                    V.add(vk, {"program": key, "history": list(h)}, vd)
                if state not in seen:
                    seen[state] = (h, ninst, is_t)
                    nxt.append(h)
            frontier = nxt
            if not frontier:
                break
        per_prog[key] = {"states": len(seen), "transitions": trans}
        states_total += len(seen)
        trans_total += trans
        samples.append({"program": key, "history": list(list(seen.values())[-1][0])})
    cov = {"states": states_total, "transitions": trans_total, "traces_validated_against_impl": trans_total,
           "samples": samples[:6], "per_program": per_prog, "depth": depth, "events": EVENTS, "cap_hit": cap_hit,
           "evaluations": trans_total, "distinct_nontrivial": states_total,
           "rule": "every history runs in a fresh fork of a process that never used the package; state = tuple of digests (serialisation text or exception, deep canonical content incl. which optional keys exist) of the program and its tracked instances (<=3); "
                   "BFS over event sequences to the stated depth with de-duplication on the state; every transition replays its whole history on freshly loaded objects",
           "exhaustive": not cap_hit}
    return {"coverage": cov, "violations": V.records(),
            "assumptions": ["the digest observes a program through dumps(), its public attributes and to_DiGraph(); `mutgraph` edits a returned graph in place - its structure and the argument containers of nodes whose operation has no args key (node data that are the program's own lists are a view of the program, like program.operations, and are not touched)", "for templates with an array-valued parameter the caller's own ndarray (one object, passed to every `call1n`, modified by `mutcaller`) is part of the state", "the digest observes programs through their public attributes and dumps()"]}


def hist_ninst(h):
    return min(MAXINST, sum(1 for e in h if e.startswith("call")))


def replay(case):
    state, viol, _, _ = build(case["program"], case["history"])
    return bool(viol), repr(viol)[:400]
