"""C18  Comments, blank lines, spacing and line-ending style do not change the program.

Metamorphic: for every base script, every single layout edit at every site (and, thorough, every pair of
edits at distinct sites), combined with every global style (LF/CRLF/CR, tab vs four spaces, final newline
or not), must load to a program with the same canonical digest as the base.  An intra-line spacing edit is
used only if the grammar-derived reference tokenizer confirms that the non-skipped token sequence is
unchanged (otherwise it is not layout).
"""
import collections
import itertools

from bbv.core import pool, observe
from bbv.g4 import lexnfa
from . import common

LEVEL = "exploration"

BASES = collections.OrderedDict([
    ("meta-options", "name a\nversion 1.0\ntarget g (shots=10, l=[1, 2], s=\"a b\")\ntype t (k=-1.5)\n\nG | 0\n"),
    ("scalars", "name a\nversion 1.0\n\nint n = 3\nfloat x = 2*n+0.5\ncomplex z = 1+2j\nbool b = True\nstr s = \"a # b \u00b5m caf\u00e9\"\nG(n, x, z, b, s) | [0, 1]\n"),
    ("arrays", "name a\nversion 1.0\n\nfloat array A[2, 2] =\n    1, 2\n    -3, 4\ncomplex array B =\n    1+2j, {p}\nG(A[1], B) | 0\nH(A) | [1, 0]\n"),
    ("statements", "name a\nversion 1.0\n\nG(1, -2.5, x=[1, 2], y={q}*2, w=\"s\") | [0, 1]\nMeasureX | 0\nXgate(q0*2, sqrt(2)) | (1, 2)\nVac | 2, 0\nK() | 3\n"),
    ("loops", "name a\nversion 1.0\n\nint n = 2\nfor int i in 0:3\n    H(i) | i\n    K(i*n) | (i, i+1)\nfor float y in [0.5, 1]\n    H(y) | 0\nMeasureX | 0\n"),
    ("loop-last", "name a\nversion 1.0\n\nG | 1\nfor int i in 2:0\n    H | i\nfor str s in \"a\", \"b\"\n    L(s) | 0\n    M | 1\n"),
    ("tdm", "name a\nversion 1.0\ntype tdm (temporal_modes=2)\n\nfloat array p0 =\n    0.5, 1.5\nfloat x = 0.25\nSgate(p0, x) | 1\nMeasureHomodyne(phi=p0) | 0\n"),
    ("minimal", "name a\nversion 1.0\nG | 0\n"),
    ("array-last", "name a\nversion 1.0\n\nG | 0\nint array A =\n    1, 2\n    3, 4\n"),
    # a script with include lines: only meaningful through the file interface (the included file lies next to the working file)
    ("include", "name a\nversion 1.0\ntarget g (shots=3)\ninclude \"c18lib.xbb\"\ninclude \"c18lib2.xbb\"\n\nfloat x = 0.5\nSub(t=x) | [2, 0]\nG(x) | 1\nSub2 | [1, 4]\n"),
])
FILE_ONLY = ("include",)
LIBS = collections.OrderedDict([
    ("c18lib.xbb", "name Sub\nversion 1.0\n\nint n = 2\nBS({t}, n) | [0, 1]\nfor int i in 0:2\n    R(i) | i\n"),
    ("c18lib2.xbb", "name Sub2\nversion 1.0\ninclude \"c18lib.xbb\"\nK | 0\nSub(t=1) | [0, 3]\n"),
])


def digest(text):
    st, p = common.loads(text)
    if st == "exc":
        return ("EXC", type(p).__name__, str(p)[:100])
    return repr(observe.prog_canon(p, exact=True, variables=True))


_L = None


def L():
    global _L
    if _L is None:
        _L = lexnfa.RefLexer()
    return _L


def line_roles(lines):
    """role of each line: 'meta' | 'arrayrow' | 'loopbody-first' | 'loopbody' | 'for' | 'arrayhead' | 'plain' | 'blank'"""
    roles = []
    prev = None
    for i, l in enumerate(lines):
        if l.startswith("    ") or l.startswith("\t"):
            if prev in ("arrayhead", "arrayrow"):
                r = "arrayrow"
            elif prev == "for":
                r = "loopbody-first"
            else:
                r = "loopbody"
        elif l.startswith("for "):
            r = "for"
        elif " array " in l and l.rstrip().endswith("="):
            r = "arrayhead"
        elif l.strip() == "":
            r = "blank"
        elif l.split(" ")[0] in ("name", "version", "target", "type", "include"):
            r = "meta"
        else:
            r = "plain"
        roles.append(r)
        prev = r
    return roles


def single_edits(base):
    """list of (kind, site, feature, function text->text applied to the LF/4-space base)"""
    lx = L()
    toks = lx.tokens(base, keep_skipped=True)
    sig = [t[:2] for t in lx.tokens(base)]
    real = [t for t in toks if t[0] not in ("SPACE", "COMMENT")]
    edits = []
    # (1) spacing at token boundaries inside a line, and at line ends
    for a, b in zip(real, real[1:]):
        if a[0] in ("NEWLINE", "TAB") or b[0] == "TAB":
            continue      # line start / next to indentation: excluded by the property
        end = a[2] + len(a[1])
        for n in (1, 2, 3):
            var = base[:end] + " " * n + base[b[2]:]
            if var == base:
                continue
            if [t[:2] for t in lx.tokens(var)] != sig:
                edits.append(("skip-token-change", (end, n), "", None))
                continue
            edits.append(("space", (end, n), "line-end" if b[0] == "NEWLINE" else "", var))
    lines = base.split("\n")
    roles = line_roles(lines)
    # (2) trailing comment on every line
    for i in range(len(lines) - 1):
        if lines[i].strip() == "" and False:
            continue
        for c in (" # c", "#c", "  # \"x\" = [1, 2) {"):
            var = "\n".join(lines[:i] + [lines[i] + c] + lines[i + 1:])
            feat = "after-for-header-line" if False else ""
            edits.append(("trailing-comment", (i, c), feat, var))
    # (1') one to three blanks in front of an unindented line (between the line break and its first token)
    for i in range(len(lines) - 1):
        if lines[i].strip() and not lines[i].startswith((" ", "\t")):
            for nsp in (1, 2, 3):
                edits.append(("leading-blanks", (i, nsp), "after-loop-body" if i and roles[i - 1].startswith("loopbody") else "", "\n".join(lines[:i] + [" " * nsp + lines[i]] + lines[i + 1:])))
    # (2') what a comment says: anything up to the line end is comment text - a trailing backslash, quotes, brackets,
    # statements, keywords, parameters, further # signs, non-ASCII text, tabs
    for i in range(len(lines) - 1):
        for c in COMMENT_TEXTS:
            edits.append(("comment-content:trailing", (i, c), "", "\n".join(lines[:i] + [lines[i] + " " + c] + lines[i + 1:])))
    for i in range(len(lines)):
        role = roles[i] if i < len(roles) else "blank"
        if role == "arrayrow":
            continue
        feat = "directly-after-for-header" if role == "loopbody-first" else ("between-loop-body-lines" if role == "loopbody" else "")
        for c in COMMENT_TEXTS:
            edits.append(("comment-content:own-line", (i, c), feat, "\n".join(lines[:i] + [c] + lines[i:])))
    # (3) inserted lines before every line and at end of file, except inside array bodies
    for i in range(len(lines)):
        role = roles[i] if i < len(roles) else "blank"
        if role == "arrayrow":
            continue
        for ins, tag in (("", "blank"), ("# c", "comment"), (" ", "1 space"), ("   ", "3 spaces"), ("  # c", "indented comment (2 spaces)")):
            var = "\n".join(lines[:i] + [ins] + lines[i:])
            feat = "directly-after-for-header" if role == "loopbody-first" else ("between-loop-body-lines" if role == "loopbody" else "")
            edits.append(("inserted-line:" + tag, (i,), feat, var))
    return edits


COMMENT_TEXTS = ["# -*- coding: latin-1 -*-", "# vim: set fileencoding=ascii :", "# encoding=see README", "#!/usr/bin/env blackbird", "# ends with a backslash \\", "#", "# caf\u00e9 \u03c0 \U0001f642", "# G(9) | 9", "# name z", "## # #", "#\ttab\tseparated", "# 'q' \"unterminated", "# for int i in 0:2",
                 "# {a} {b}", "# \\n \\t \\\\", "# float array Z =", "#!shebang", "# include \"x.xbb\"", "# a\x0bb\x0cc\x85d\u2028e"]


def restyle(text, nl, tab, final):
    if tab:
        text = "\n".join(("\t" + l[4:]) if l.startswith("    ") else l for l in text.split("\n"))
    if not final:
        text = text.rstrip("\n")
    if nl != "\n":
        text = text.replace("\n", nl)
    return text


STYLES = [(nl, tab, final) for nl in ("\n", "\r\n", "\r") for tab in (False, True) for final in (True, False)]


_LIBS_WRITTEN = set()


def workdir():
    """one directory per worker process (the included files in it are rewritten by the lib: cases)"""
    import os
    import tempfile
    if common.SCRATCH is None or not os.path.isdir(common.SCRATCH):
        common.SCRATCH = tempfile.mkdtemp(prefix="bbv-files-")
    d = os.path.join(common.SCRATCH, "c18w%d" % os.getpid())
    os.makedirs(d, exist_ok=True)
    return d


def write_libs(force=False):
    import os
    for n, t in LIBS.items():
        q = os.path.join(workdir(), n)
        if force or (q, os.getpid()) not in _LIBS_WRITTEN or not os.path.exists(q):
            with open(q, "w", encoding="utf-8", newline="") as f:
                f.write(t)
            _LIBS_WRITTEN.add((q, os.getpid()))


def digest_file(text, lib=None):
    """the same through the file interface: the text is written into the worker's working file and load()ed"""
    import os
    import tempfile
    import blackbird
    path = os.path.join(workdir(), "c18-%d.xbb" % os.getpid())
    if lib is None:
        write_libs()
    else:
        # the variant text is that of an included file; the main script is the unchanged base
        with open(os.path.join(workdir(), lib), "w", encoding="utf-8", newline="") as f:
            f.write(text)
        text = BASES["include"]
    with open(path, "w", encoding="utf-8", newline="") as f:
        f.write(text)
    observe.reset_tables()
    try:
        p = blackbird.load(path)
    except Exception as e:  # noqa
        return ("EXC", type(e).__name__, str(e).replace(path, "<FILE>").replace(workdir(), "<D>").replace(common.SCRATCH, "<D>")[:100])
    finally:
        if lib is not None:
            write_libs(force=True)
    return repr(observe.prog_canon(p, exact=True, variables=True))


def header(n):
    """exactly n characters of comment and blank lines"""
    out = []
    left = n
    k = 0
    while left > 0:
        line = ("# " + "header line %03d " % k + "x" * 40)[:max(0, min(left - 1, 60))]
        if k % 5 == 4:
            line = ""
        out.append(line + "\n")
        left -= len(line) + 1
        k += 1
    return "".join(out)


@common.guarded("C18")
def _case(c):
    name, text, ref = c
    if name.startswith("lib:"):
        d = digest_file(text, lib=name.split(":")[1])
    else:
        d = digest_file(text) if name.startswith("file:") else digest(text)
    if d == ref:
        return None
    if isinstance(d, tuple):
        return ("raises:" + d[1], "%s" % (d,))
    return ("differs", "digest differs")


def run(ctx):
    Vs = common.Violations(keep=5)
    cases = []
    meta = []
    skipped = 0
    per_kind = collections.Counter()
    not_loading = []
    common.SCRATCH = ctx.scratch
    for name, base in BASES.items():
        ref = digest_file(base) if name in FILE_ONLY else digest(base)
        if isinstance(ref, tuple):
            # a base script that does not load cannot anchor a metamorphic comparison; that it is rejected at all is
            # C02's / C10's subject (both enumerate such scripts) - it is counted, not reported here
            not_loading.append(name)
            continue
        edits = single_edits(base)
        usable = [e for e in edits if e[3] is not None]
        skipped += len(edits) - len(usable)
        for st in STYLES:
            cases.append((name, restyle(base, *st), ref))
            meta.append((name, "style-only", "", st))
            # blank and comment lines before the metadata
            for pre in ("\n", "# c\n", "\n\n# c\n \n"):
                cases.append((name, restyle(pre + base, *st), ref))
                meta.append((name, "lines-before-metadata", "", st))
        # how MUCH comes before the metadata: comment/blank headers of exactly n characters around powers of two
        if name in list(BASES)[:2]:
            for n in [100, 1000] + list(range(2040, 2056)) + [4090, 4096, 4100, 8192, 20000]:
                for st in (STYLES[0], STYLES[2], STYLES[8]):
                    cases.append((name, restyle(header(n) + base, *st), ref))
                    meta.append((name, "header-size", "", st))
                    per_kind["header-size"] += 1
        # every assignment of {tab, four spaces} to the individual indented lines (mixed within one loop body / array)
        ls = base.split("\n")
        ind = [i for i, l in enumerate(ls) if l.startswith("    ")]
        if 2 <= len(ind) <= 6:
            for mask in range(1, 2 ** len(ind) - 1):
                v = list(ls)
                for b, i in enumerate(ind):
                    if mask >> b & 1:
                        v[i] = "\t" + v[i][4:]
                for nl in ("\n", "\r\n", "\r"):
                    cases.append((name, restyle("\n".join(v), nl, False, True), ref))
                    meta.append((name, "mixed-indentation", "", (nl, "mixed", True)))
                    per_kind["mixed-indentation"] += 1
        for kind, site, feat, var in usable:
            styles = STYLES if (kind != "space" or ctx.quick is False) else [STYLES[0], STYLES[5], STYLES[10]]
            for st in styles:
                cases.append((name, restyle(var, *st), ref))
                meta.append((name, kind, feat, st))
                per_kind[kind.split(":")[0]] += 1
        if not ctx.quick or name == "minimal":
            # every pair of single edits at distinct sites, composed on the text via line/offset-preserving order:
            # apply the second edit to the result of the first when both are line insertions / comments (commuting sites)
            ins = [e for e in usable if e[0].startswith(("inserted-line", "trailing-comment"))]
            for e1, e2 in itertools.combinations(ins, 2):
                if e1[1][0] == e2[1][0]:
                    continue
                var = compose(base, e1, e2)
                if var is None:
                    continue
                cases.append((name, var, ref))
                meta.append((name, "pair:" + e1[0].split(":")[0] + "+" + e2[0].split(":")[0], "directly-after-for-header" if "directly-after-for-header" in (e1[2], e2[2]) else (e1[2] or e2[2]), STYLES[0]))
                per_kind["pair"] += 1
    # bases with include lines go through the file interface only
    cases = [(("file:" + c[0]) if c[0] in FILE_ONLY else c[0], c[1], c[2]) for c in cases]
    per_kind["include-base"] = sum(1 for c in cases if c[0] == "file:include")
    # the layout of the INCLUDED files: every single edit x every style of each included file, main script unchanged
    iref = digest_file(BASES["include"])
    if not isinstance(iref, tuple):
        for lib, ltext in LIBS.items():
            for kind, site, feat, var in single_edits(ltext):
                if var is None:
                    continue
                for st in (STYLES if (kind != "space" or ctx.quick is False) else [STYLES[0], STYLES[5], STYLES[10]]):
                    cases.append(("lib:" + lib, restyle(var, *st), iref))
                    meta.append(("include", "included-file:" + kind, feat, st))
                    per_kind["included-file"] += 1
            for st in STYLES:
                for pre in ("", "\n", "# c\n", "\n\n# c\n \n"):
                    cases.append(("lib:" + lib, restyle(pre + ltext, *st), iref))
                    meta.append(("include", "included-file:style", "", st))
                    per_kind["included-file"] += 1
    # the file interface: every style-only, before-metadata, header-size and own-line-comment variant also through load()
    for (name, text, ref), m in list(zip(cases, meta)):
        if name.startswith(("file:", "lib:")):
            continue
        if m[1] in ("style-only", "lines-before-metadata", "header-size") or m[1].startswith("comment-content:own-line"):
            cases.append(("file:" + name, text, ref))
            meta.append((name, "file-route:" + m[1], m[2], m[3]))
            per_kind["file-route"] += 1
    res = pool.pmap(_case, cases, chunk=100)
    distinct = set()
    for (name, text, ref), m, r in zip(cases, meta, res):
        distinct.add(text)
        if r == "TIMEOUT":
            Vs.add("C18/no-outcome", {"base": name, "text": text}, "timeout")
        elif r is not None:
            bname, kind, feat, st = m
            if feat == "directly-after-for-header" and r[0].startswith("raises:BlackbirdSyntaxError"):
                key = "C18/line-inserted-directly-after-for-header"
            elif bname == "array-last" and r[0].startswith("raises:BlackbirdSyntaxError") and "<EOF>" in r[1] and not text.rstrip(" \t").endswith(("\n", "\r")) \
                    and text.rstrip(" \t").split("\r\n")[-1].split("\n")[-1].split("\r")[-1].startswith(("    ", "\t")):
                key = "C18/no-final-newline-after-last-array-row"
            else:
                key = "C18/%s:%s%s%s" % (r[0], kind, (":" + feat) if feat else "", "" if st == STYLES[0] else ":nl=%r,tab=%r,final=%r" % st)
            Vs.add(key, {"base": name, "text": text}, "%s ;; variant: %r" % (r[1][:200], text[:300]))
    cov = {"evaluations": len(cases), "distinct_nontrivial": len(distinct - set(BASES.values())),
           "rule": "%d base scripts covering every rule that mentions NEWLINE or TAB; edits at EVERY site: spaces at each intra-line token boundary and line end set to 1/2/3 (kept only if the reference tokenizer confirms an unchanged token sequence; "
                   "boundaries next to indentation excluded), 3 kinds of trailing comment on each line, %d comment texts (trailing backslash, quotes, statements, keywords, parameters, non-ASCII, other line-boundary characters) trailing on each line and on lines of their own, 5 kinds of inserted line before each line and at end of file (not inside array bodies); x 12 global styles (LF/CRLF/CR x tab/4 spaces x final newline or not) "
                   "(quick: 3 styles for spacing edits); blank/comment lines before the metadata; comment/blank headers of exactly n characters for n around 2048 / 4096 / 8192 and up to 20000; the style-only, before-metadata, header and own-line-comment variants also through the file interface (load() of one working file per worker); pairs of line edits on the short bases; one base with two include lines (nested include, template call) run through load() only, with every edit x style applied to the main script and, separately, to each included file. non-trivial = variant text differs from the base; distinct by text" % (len(BASES), len(COMMENT_TEXTS)),
           "samples": [repr(c[1]) for c in common.sample(cases, 4)], "exhaustive": True, "by_edit_kind": dict(per_kind), "base_scripts_not_loading": not_loading, "spacing_edits_skipped_token_change": skipped}
    return {"coverage": cov, "violations": Vs.records(),
            "assumptions": ["a comment line indented by a tab or four spaces produces a TAB token: next to indentation, excluded by the property, not generated", "digest = exact canonical program content incl. variables"]}


def compose(base, e1, e2):
    """apply two line-level edits (insertions / trailing comments) at distinct line indices"""
    lines = base.split("\n")

    def parts(e):
        kind, site = e[0], e[1]
        i = site[0]
        if kind.startswith("trailing-comment"):
            return ("t", i, site[1])
        new = e[3].split("\n")
        return ("i", i, new[i])
    a, b = parts(e1), parts(e2)
    out = []
    for i, l in enumerate(lines):
        for p in (a, b):
            if p[0] == "i" and p[1] == i:
                out.append(p[2])
        for p in (a, b):
            if p[0] == "t" and p[1] == i:
                l = l + p[2]
        out.append(l)
    for p in (a, b):
        if p[0] == "i" and p[1] >= len(lines):
            out.append(p[2])
    return "\n".join(out)


def replay(case):
    bname = case["base"].replace("file:", "")
    if bname.startswith("lib:") or bname in FILE_ONLY:
        ref = digest_file(BASES["include"])
    else:
        ref = digest(BASES[bname])
    r = _case((case["base"], case["text"], ref))
    return (r is not None), repr(r)[:300]
