"""C15  TDM programs pass p-arrays by name and keep their data.

Enumerates tdm scripts: 0-2 (thorough 3) arrays named p0/p1/p12 of every element type and shape, used
positionally / as keyword / indexed / not at all, next to names that must NOT be treated as p-arrays (pp, p,
p0x, a scalar named p0), ordinary scalars and arrays, template parameters and loops; and the same scripts
with another type and without type.  Oracle: reference model (argument = the name, variables keep the
declared array, others by value, no p-name among the free parameters) + serialise/re-load round trip.
"""
import ast as pyast
import collections
import itertools
import os

from bbv.core import pool, observe
from bbv.model import lang, denote
from bbv.model.lang import N, V, B, U, P, S, BOOL, IDX
from . import common, equiv

LEVEL = "exploration"

ELEMS = {"int": [N("1"), U("-", N("2")), N("3"), N("40")], "float": [N("0.5"), U("-", N("1.5")), N("2.0"), N("1e-3")], "complex": [N("1+2j"), N("0.5j"), U("-", N("3.0")), N("2-1j")]}
SHAPES = [(1, 1), (1, 2), (1, 3), (2, 2)]


def parr(name, t, shape, declare_shape=False):
    r, c = shape
    rows = [[ELEMS[t][(i * c + j) % 4] for j in range(c)] for i in range(r)]
    return ("arr", t, name, shape if declare_shape else None, rows)


def st(op, args, kwargs, modes=None):
    return ("stmt", op, args, kwargs, modes or [N("0")], "none")


META = {
    "tdm": dict(name="t", version="1.0", type=("tdm", [], [("temporal_modes", N("2"))])),
    "tdm-target": dict(name="t", version="1.0", target=("TD2", [], [("shots", N("3"))]), type=("tdm", None, [])),
    "other": dict(name="t", version="1.0", type=("other", [], [])),
    "none": dict(name="t", version="1.0"),
}


def build(ctx, incdir=None):
    scripts = []
    fam = collections.Counter()

    def add(f, metas, items):
        for mk in metas:
            scripts.append((mk, dict(META[mk], items=items)))
            fam[f] += 1
    allm = ["tdm", "tdm-target", "other", "none"]
    # one p-array: every type x shape x usage
    for name, t, shape, ds in itertools.product(("p0", "p1", "p12"), ELEMS, SHAPES, (False, True)):
        A = parr(name, t, shape, ds)
        usages = {
            "pos": [st("Sgate", [V(name), N("0.0")], [], [N("1")])],
            "kw": [st("MeasureHomodyne", [], [("phi", V(name))])],
            "both": [st("G", [N("1"), V(name)], [("k", V(name))]), st("H", [V(name)], [])],
            "unused": [st("G", [N("1")], [])],
            "indexed": [st("G", [IDX(name, N("0")), V(name)], [])],
            "twice": [st("G", [V(name), V(name)], [], [N("0"), N("1")])],
        }
        for u, stmts in usages.items():
            if ctx.quick and name != "p0" and u not in ("pos", "kw"):
                continue
            add("one p-array", allm if name == "p0" else ["tdm", "none"], [A] + stmts)
    # long p-arrays (one value per temporal mode: rows of 64 .. 259 entries, also several long rows), every entry different
    def plong(name, t, shape, ds):
        r, c = shape
        mk = {"int": lambda k: N(str(k + 1)) if k % 7 else U("-", N(str(k + 1))), "float": lambda k: N(repr(k * 0.5 + 0.25)),
              "complex": lambda k: N("%d+%dj" % (k + 1, k % 5 + 1))}[t]
        return ("arr", t, name, shape if ds else None, [[mk(i * c + j) for j in range(c)] for i in range(r)])
    for t, shape, ds in itertools.product(ELEMS, ((1, 64), (1, 65), (1, 100), (1, 128), (1, 259), (2, 70), (3, 130), (70, 2)), (False, True)):
        if ctx.quick and ds and shape[0] > 1:
            continue
        A = plong("p0", t, shape, ds)
        add("long p-array", ["tdm", "tdm-target", "none"], [A, st("Sgate", [V("p0"), N("0.0")], [], [N("1")]), st("MeasureHomodyne", [], [("phi", V("p0"))])])
        add("long p-array", ["tdm"], [A, plong("p1", "float", (1, shape[1]), False), st("G", [V("p1"), V("p0")], [("k", IDX("p0", N(str(shape[0] * shape[1] - 1))))])])
    # two / three p-arrays
    names = ["p0", "p1", "p12"]
    types = list(ELEMS)
    for (n1, n2), (t1, t2), (s1, s2) in itertools.product(itertools.permutations(names, 2), itertools.product(types, repeat=2), itertools.product(SHAPES[1:], repeat=2)):
        if ctx.quick and (s1 != s2 or (n1, n2) not in (("p0", "p1"), ("p12", "p0"))):
            continue
        items = [parr(n1, t1, s1), parr(n2, t2, s2), st("Sgate", [V(n1), N("0.0")], [], [N("1")]), st("BSgate", [N("0.5")], [("phi", V(n2))], [N("0"), N("1")]), st("MeasureHomodyne", [V(n1)], [("k", V(n2))])]
        add("two p-arrays", ["tdm", "none"], items)
    if not ctx.quick:
        for t1, t2, t3 in itertools.product(types, repeat=3):
            items = [parr("p0", t1, (1, 2)), parr("p1", t2, (1, 3)), parr("p12", t3, (2, 2)), st("G", [V("p0"), V("p1"), V("p12")], []), st("H", [], [("a", V("p12")), ("b", V("p0"))])]
            add("three p-arrays", ["tdm", "none"], items)
    # names that are not p-arrays
    for nm in ("pp", "p", "p0x", "P0", "q_p0", "p_1"):
        add("non-p names", ["tdm", "none"], [parr(nm, "float", (1, 2)), st("G", [V(nm)], [("k", V(nm))])])
    for t, val in (("float", N("0.5")), ("int", N("3")), ("complex", N("1+2j"))):
        add("scalar named p0", ["tdm", "none"], [("decl", t, "p0", val), st("G", [V("p0")], [("k", V("p0"))])])
        add("scalar named p0 + p-array p1", ["tdm"], [("decl", t, "p0", val), parr("p1", "float", (1, 2)), st("G", [V("p0"), V("p1")], [])])
    # alongside ordinary variables, template parameters and loops
    extras = [
        ("scalar int", [("decl", "int", "n", N("3"))], [st("K", [V("n"), V("p0")], [])]),
        ("scalar float", [("decl", "float", "x", N("0.25"))], [st("K", [V("x")], [("p", V("p0"))])]),
        ("scalar complex", [("decl", "complex", "z", N("1-2j"))], [st("K", [V("z"), V("p0")], [])]),
        ("scalar bool", [("decl", "bool", "b", BOOL(True))], [st("K", [V("b"), V("p0")], [])]),
        ("scalar str", [("decl", "str", "s", S("hi"))], [st("K", [V("s"), V("p0")], [])]),
        ("ordinary array", [("arr", "float", "A", None, [[N("1.5"), N("2.5")]])], [st("K", [V("A"), V("p0")], [])]),
        ("ordinary int array", [("arr", "int", "B", (2, 1), [[N("5")], [U("-", N("6"))]])], [st("K", [V("p0")], [("m", V("B"))])]),
        ("template parameter", [], [st("K", [P("alpha"), V("p0")], [("k", B("*", N("2"), P("alpha")))])]),
        ("two template parameters", [], [st("K", [B("-", P("a"), P("alpha")), V("p0")], [])]),
        ("loop", [], [("for", "int", "i", ("range", 0, 2, None), [("stmt", "L", [V("p0"), V("i")], [], [V("i")], "none")])]),
        ("loop + kw", [("decl", "int", "n", N("2"))], [("for", "int", "i", ("range", 0, 2, None), [("stmt", "L", [V("i")], [("phi", V("p0"))], [V("i"), V("n")], "sq")])]),
    ]
    for (label, decls, stmts), t, shape in itertools.product(extras, ELEMS, SHAPES[1:] if not ctx.quick else SHAPES[1:3]):
        add("p-array next to " + label, ["tdm", "tdm-target", "none"], decls + [parr("p0", t, shape)] + [st("Sgate", [V("p0")], [], [N("1")])] + stmts)
        add("p-array declared after " + label, ["tdm"], [parr("p0", t, shape)] + decls + stmts)
    # a p-array that is itself a whole-array template parameter (declared shape, single {param})
    for nm, t, shape in itertools.product(("p0", "p2"), ELEMS, ((1, 2), (1, 3), (2, 2))):
        tp = ("arr", t, nm, shape, [[P("sq")]])
        add("p-array declared as a whole-array template", ["tdm", "none"], [tp, st("Sgate", [V(nm), N("0.0")], [], [N("1")]), st("MeasureHomodyne", [], [("phi", V(nm))])])
        add("p-array declared as a whole-array template", ["tdm"], [parr("p1", "float", (1, 2)), tp, st("G", [V("p1"), V(nm)], [])])
    # an ordinary array with the same element type and numbers as a p-array declared before / after it, passed by value
    for t, shape in itertools.product(ELEMS, SHAPES[1:]):
        twin = parr("A", t, shape)
        for order in ("p-first", "A-first"):
            decls = [parr("p0", t, shape), twin] if order == "p-first" else [twin, parr("p0", t, shape)]
            add("ordinary array equal to a p-array (%s)" % order, ["tdm", "none"], decls + [st("Correct", [V("A"), V("p0"), N("0.4")], []), st("MeasureHomodyne", [], [("phi", V("p0")), ("offset", V("A"))])])
    # tdm programs that include an ordinary / differently typed file (the include is parsed between the type line and the declarations)
    if incdir:
        for incs, calls in (([os.path.join(incdir, "sub.xbb")], [st("Sub", None, [], [N("3"), N("4")])]), ([os.path.join(incdir, "subt.xbb")], [st("SubT", [], [("x", N("2"))], [N("5")])]),
                            ([os.path.join(incdir, "sub.xbb"), os.path.join(incdir, "subt.xbb")], [])):
            for t, shape in itertools.product(ELEMS, SHAPES[1:3]):
                for mk in ("tdm", "tdm-target"):
                    sc = dict(META[mk], includes=incs, items=[parr("p0", t, shape), parr("p1", "float", (1, 2)), st("Sgate", [V("p0"), N("0.0")], [], [N("1")])] + calls + [st("MeasureHomodyne", [], [("phi", V("p1"))])])
                    scripts.append((mk, sc))
                    fam["tdm program with includes"] += 1
    # element values: the data of a p-array come back exactly - many-digit doubles, values at and around pi multiples /
    # e / 1/3 / powers of ten, and the ends of the double range, as float and as complex p-arrays, 1xN and 2xN
    from bbv.model import alphabet as A_
    vals = A_.near_special_floats() + ["0.30000000000000004", "123456789.123456789", "1e-300", "1.7976931348623157e308", "5e-324", "2.2250738585072014e-308", "0.1", "1e22", "9007199254740993.0"]
    for k in range(0, len(vals), 6):
        chunk = (vals[k:k + 6] + vals[:6])[:6]
        rowf = [N(v) if i % 2 == 0 else U("-", N(v)) for i, v in enumerate(chunk)]
        rowc = [N("%s%s%sj" % (chunk[i], "+" if i % 2 else "-", chunk[i + 1])) for i in range(0, 6, 2)]
        for arr in (("arr", "float", "p0", None, [rowf]), ("arr", "float", "p0", (2, 3), [rowf[:3], rowf[3:]]), ("arr", "complex", "p0", None, [rowc])):
            add("p-array element values", ["tdm"], [arr, ("arr", "int", "p1", None, [[N("1"), N("2")]]), st("Sgate", [V("p0"), N("0.0")], [], [N("1")]), st("MeasureHomodyne", [], [("phi", V("p1"))])])
    # a p-name declared more than once (the later declaration wins; it is still a p-array and still passed by name)
    for t1, t2 in itertools.product(ELEMS, repeat=2):
        a1, a2 = parr("p0", t1, (1, 2)), parr("p0", t2, (1, 3))
        add("p-array declared twice", ["tdm", "none"], [a1, st("Sgate", [V("p0"), N("0.0")], [], [N("1")]), a2, st("Rgate", [V("p0")], [("k", V("p0"))]), st("MeasureHomodyne", [], [("phi", V("p0"))])])
    for t, val in (("float", N("0.25")), ("int", N("3"))):
        add("scalar, then array, under one p-name", ["tdm", "none"], [("decl", t, "p2", val), st("G", [V("p2")], []), parr("p2", "complex", (1, 2)), st("H", [V("p2")], [("k", V("p2"))])])
        # (array first, then a scalar under the same p-name: the implementation refuses the later use with "p2 must be an
        #  array"; the property does not say what a p-name that stops being an array denotes - not generated)
    # an ordinary variable named like a template parameter that was evaluated before it (only names registered as p-arrays are
    # passed by name; a template parameter is not one, whatever it is called)
    for t, shape in itertools.product(ELEMS, SHAPES[1:3]):
        for nm in ("A", "gain", "r"):
            ordinary = parr(nm, t, shape)
            first = st("K", [B("*", N("2"), P(nm))], [("k", P(nm))])
            add("ordinary array named like an earlier template parameter", ["tdm", "tdm-target", "none"], [parr("p0", t, shape), first, ordinary, st("G", [V(nm), V("p0")], [("w", V(nm))])])
            add("ordinary array named like an earlier template parameter", ["tdm"], [ordinary, ("for", "int", "i", ("range", 0, 2, None), [("stmt", "L", [P(nm), V("i")], [], [V("i")], "none")]), parr("p1", t, shape), st("G", [V("p1"), V(nm)], [])])
    for t, val in (("float", N("0.25")), ("int", N("3")), ("complex", N("1-2j"))):
        add("ordinary scalar named like an earlier template parameter", ["tdm", "none"], [parr("p0", "float", (1, 2)), st("K", [P("x"), V("p0")], []), ("decl", t, "x", val), st("G", [V("x"), V("p0")], [("w", V("x"))])])
    add("no p-arrays", allm, [st("G", [N("1")], [])])
    add("no p-arrays, parameter", allm, [st("G", [P("a")], [])])
    return scripts, fam


SUB = dict(name="Sub", version="1.0", items=[("stmt", "A", [N("0.5")], [], [N("0")], "none"), ("stmt", "B", None, [], [N("1"), N("0")], "sq")])
SUBT = dict(name="SubT", version="1.0", type=("other", None, []), items=[("stmt", "C", [P("x")], [], [N("0")], "none")])


def library(sc):
    incs = sc.get("includes", [])
    return {p: (SUBT if p.endswith("subt.xbb") else SUB) for p in incs}


@common.guarded("C15")
def judge(mk, sc):
    text = lang.render(sc)
    try:
        m = denote.Model(library(sc)).run(sc)
    except (denote.OutOfDomain, denote.Refused) as e:
        return ("C15/harness-model-refuses", repr(e))
    st_, p = common.loads(text)
    if st_ == "exc":
        return ("C15/load-raises:" + type(p).__name__, common.exc_sig(p))
    errs = denote.compare(m, p, check_params=True, check_vars=not sc.get("includes"))
    if bool(p.is_template()) != bool(m.params):
        errs.append("is_template %r but parameters written %r" % (p.is_template(), m.params))
    if errs:
        return ("C15/load-differs:" + "|".join(sorted(set(e.split(" ")[0].split("-")[-1] if e.startswith("op") else e.split(" ")[0] for e in errs))), "; ".join(errs)[:300])
    # an instantiated tdm template is still the same tdm program (type, p-arrays, references)
    has_param_array = any(it[0] == "arr" and any(x[0] == "par" for row in it[4] for x in row) for it in sc["items"])
    if m.params and not has_param_array:
        if len(text) % 2 == 0:
            common.dumps(p)     # in half of the cases the template has been serialised before it is instantiated
        try:
            inst = p(**{n: 0.5 for n in m.params})
        except Exception as e:  # noqa
            return ("C15/instantiation-raises:" + type(e).__name__, common.exc_sig(e))
        if inst.programtype != p.programtype or inst.target != p.target or inst.name != p.name or inst.version != p.version:
            return ("C15/instance-metadata-differs", "type %r vs %r; target %r vs %r; version %r vs %r" % (inst.programtype, p.programtype, inst.target, p.target, inst.version, p.version))
        for n in m.ptypes:
            if n not in inst.variables or not equiv.val_equiv(inst.variables[n], p.variables[n]):
                return ("C15/instance-p-array-differs", n)
        for o1, o2 in zip(p.operations, inst.operations):
            for a1, a2 in zip(list(o1.get("args", [])) + list(o1.get("kwargs", {}).values()), list(o2.get("args", [])) + list(o2.get("kwargs", {}).values())):
                if isinstance(a1, str) and a1 != a2:
                    return ("C15/instance-reference-differs", "%r vs %r" % (a1, a2))
        s2, t = common.dumps(inst)
        if s2 == "exc":
            return ("C15/instance-dumps-raises:" + type(t).__name__, common.exc_sig(t))
        s3, q = common.loads(t)
        if s3 == "exc":
            return ("C15/instance-reload-raises:" + type(q).__name__ + ":" + common.msgclass(q), common.exc_sig(q) + " ;; " + t[-300:])
        d = equiv.prog_equiv(inst, q, variables=sorted(m.ptypes))
        if d:
            return ("C15/instance-roundtrip-differs:" + equiv.classify(d), "; ".join(d)[:300] + " ;; " + t[-300:])
    if sc.get("includes"):
        return None          # the serialiser does not write include lines; the round trip of inlined programs is C01/C07's subject
    # round trip
    s2, t = common.dumps(p)
    if s2 == "exc":
        has_param_array = any(it[0] == "arr" and any(x[0] == "par" for row in it[4] for x in row) for it in sc["items"])
        if has_param_array and ((type(t).__name__ == "KeyError" and "'O'" in str(t)) or (type(t).__name__ == "ValueError" and "unsupported type object" in str(t))):
            return ("C15/array-with-parameters-not-serialisable", common.exc_sig(t))
        return ("C15/dumps-raises:" + type(t).__name__ + ":" + common.msgclass(t), common.exc_sig(t))
    s3, q = common.loads(t)
    if s3 == "exc":
        return ("C15/reload-raises:" + type(q).__name__ + ":" + common.msgclass(q), common.exc_sig(q) + " ;; " + t[-300:])
    d = equiv.prog_equiv(p, q, variables=sorted(m.ptypes))
    if d:
        return ("C15/roundtrip-differs:" + equiv.classify(d), "; ".join(d)[:300] + " ;; " + t[-300:])
    return None


def _case(c):
    return judge(*c)


def write_includes(d):
    os.makedirs(d, exist_ok=True)
    open(os.path.join(d, "sub.xbb"), "w").write(lang.render(SUB))
    open(os.path.join(d, "subt.xbb"), "w").write(lang.render(SUBT))


def run(ctx):
    incdir = os.path.join(ctx.scratch, "c15inc")
    write_includes(incdir)
    scripts, fam = build(ctx, incdir)
    scripts = common.shard(scripts, ctx.seed)
    res = pool.pmap(_case, scripts, chunk=30)
    Vs = common.Violations(keep=5)
    nontrivial = set()
    for (mk, sc), r in zip(scripts, res):
        text = lang.render(sc)
        if mk.startswith("tdm") and any(it[0] == "arr" and denote.is_pname(it[2]) for it in sc["items"]):
            nontrivial.add(text)
        if r == "TIMEOUT":
            Vs.add("C15/no-outcome", {"meta": mk, "ast": repr(sc), "text": text}, "timeout")
        elif r is not None:
            Vs.add(r[0], {"meta": mk, "ast": repr(sc), "text": text}, r[1])
    cov = {"evaluations": len(scripts), "distinct_nontrivial": len(nontrivial),
           "rule": "tdm scripts with 0-2 (thorough 3) arrays named p0/p1/p12 x element type x shape {1x1,1x2,1x3,2x2} x declared shape or not x usage {positional, keyword, both, unused, indexed, twice}; names that are not p-arrays; scalars named p0; "
                   "p-arrays next to every ordinary variable kind, template parameters and loops, declared before and after them; each also with type != tdm and without type. non-trivial = tdm program with >= 1 p-array; distinct by text",
           "samples": [lang.render(sc) for _, sc in common.sample(scripts, 4)], "exhaustive": True, "by_family": dict(fam)}
    return {"coverage": cov, "violations": Vs.records(), "assumptions": ["extra hoisted variables (A0..) after a re-load are not compared", "a template parameter written {p0} is outside this property (see C04)"]}


def replay(case):
    import re
    import shutil
    import tempfile
    sc = pyast.literal_eval(case["ast"])
    d = None
    if sc.get("includes"):
        d = tempfile.mkdtemp(prefix="bbv-c15r-")
        write_includes(d)
        sc["includes"] = [os.path.join(d, os.path.basename(x)) for x in sc["includes"]]
    try:
        r = judge(case["meta"], sc)
    finally:
        if d:
            shutil.rmtree(d, ignore_errors=True)
    return (r is not None), re.sub(r"/tmp/[\w./-]+", "<TMP>", repr(r))[:400]
