"""C05  Variables have their declared type; arrays keep written layout and shape.

Exhaustive over: scalar declarations (type x initialiser form), array declarations (element type x rows x
columns x declared-shape variant x every placement of template parameters), ragged arrays (every
non-constant row-length vector), and every in-range index A[k] / A[n+1].
"""
import collections
import itertools

from bbv.core import pool, observe
from . import common

LEVEL = "exploration"
H = "name a\nversion 1.0\n\n"

VALS = {"int": lambda k: str(k + 1), "float": lambda k: "%d.5" % (k + 1), "complex": lambda k: "%d+%dj" % (k + 1, k + 2)}
NEG = {"int": lambda k: "-%d" % (k + 1), "float": lambda k: "-%d.5" % (k + 1), "complex": lambda k: "-%d-%dj" % (k + 1, k + 2)}
PYV = {"int": lambda k: k + 1, "float": lambda k: k + 1.5, "complex": lambda k: complex(k + 1, k + 2)}
KIND = {"int": "i", "float": "f", "complex": "c", "bool": "b", "str": "s"}

# string contents: every character between the quotes is the value - non-ASCII text, backslashes (no escape
# sequences exist in the grammar), comment / bracket / operator characters, other line-boundary characters, and
# look-alikes of other literals and of declared names
STRINGS = ["caf\u00e9 \u03c0/2", "\U0001f642", "a\\b\\n", "C:\\temp\\new", "ends with \\", "\\x41\\u00e9", "a#b", "# not a comment", "True", "1.5", "1+2j", "n0", "pi", "q0", "{a}", "[1, 2]", "G(1) | 0",
           "tab\there", " lead and trail ", "a\x0bb\x0cc", "a\x85b\u2028c", "'single'", "%s %d {}", "1,2,3", "a,b", "x,", ",", "0:3", "a;b", "k=v,l=[1,2]"]

SCALARS = {
    "int": [("9007199254740993", 9007199254740993), ("-9007199254740993", -9007199254740993), ("2**60+1", 2 ** 60 + 1), ("9223372036854775807", 2 ** 63 - 1), ("big", 9007199254740993), ("big-1", 9007199254740992),
            ("big*1", 9007199254740993), ("4611686018427387905", 2 ** 62 + 1), ("tau", 3), ("-tau*tau", -9), ("3", 3), ("-3", -3), ("007", 7), ("2*3+1", 7), ("2**5", 32), ("n0", 4), ("-n0", -4), ("n0*n0-1", 15), ("B0[1]", -6)],
    "float": [("1e10*1e10", 1e20), ("1e5**4", 1e20), ("4e18+6e18", 1e19), ("1e3", 1000.0), ("-2e0*5e18", -1e19), ("inf", 0.75), ("nan", 1.5), ("-inf", -0.75), ("infinity", 2.25), ("e", 2.0), ("2*e", 4.0), ("tau", 3.0), ("0.5", 0.5), ("-0.25", -0.25), ("1/4", 0.25), ("3", 3.0), ("2*x0", 5.0), ("x0", 2.5), ("n0", 4.0), ("n0/8", 0.5), ("1e-7", 1e-7), ("A0[3]", 4.25), ("-x0**2", 6.25)],
    "complex": [("1e10*1e10", 1e20 + 0j), ("1e3", 1000 + 0j), ("1+2j", 1 + 2j), ("-2j", -2j), ("2*z0", 2 - 4j), ("0.5", 0.5 + 0j), ("3", 3 + 0j), ("z0", 1 - 2j), ("x0", 2.5 + 0j), ("z0*z0", -3 - 4j)],
    "bool": [("True", True), ("False", False)],
    "str": [('"a"', "a"), ('"with space"', "with space"), ('"x=1, y"', "x=1, y"), ('""', "")] + [('"%s"' % t, t) for t in STRINGS] + [("s0", "caf\u00e9 \\n")],
}
PRE_NAMED = "float inf = 0.75\nfloat nan = 1.5\nfloat infinity = 2.25\nfloat e = 2.0\nint tau = 3\nint big = 9007199254740993\n"     # names that Python's float() / NumPy / SymPy know
PRE = PRE_NAMED + "str s0 = \"caf\u00e9 \\n\"\nint n0 = 4\nfloat x0 = 2.5\ncomplex z0 = 1-2j\nfloat array A0 =\n    1.5, 2.5\n    -3.0, 4.25\nint array B0[1, 2] =\n    5, -6\n"


# half of the array declarations come after statements and a loop (declarations need not come first)
PRE_STMTS = "P | 7\nfor int i9 in 0:2\n    Q(i9) | [i9, 7]\nR(0.5, k=[1, 2]) | [7, 8]\n"


def _load(text):
    st, p = common.loads(text)
    if st == "exc":
        return None, p
    return p, None


def scalar_case(c):
    t, init, want = c
    text = H + PRE + "%s v = %s\nG(v) | 0\n" % (t, init)
    p, e = _load(text)
    if e is not None:
        return ("C05/scalar-rejected:" + type(e).__name__, common.exc_sig(e))
    v = p.variables.get("v")
    a = p.operations[0]["args"][0]
    for what, got in (("variable", v), ("argument", a)):
        if observe.kind(got) != KIND[t]:
            return ("C05/scalar-kind", "%s of `%s v = %s` has kind %s (%r), declared %s" % (what, t, init, observe.kind(got), got, t))
        if not observe.veq(got, want, 1e-12):
            return ("C05/scalar-value", "%s of `%s v = %s` is %r, expected %r" % (what, t, init, got, want))
    return None


# entries that evaluate to exactly zero, in every way of writing one (a literal, a signed literal, a difference, a product,
# a declared variable that holds 0): position k of an array in mode "zeros" is zero unless k % 3 == 1
ZERO_FORMS = {"int": ["0", "2-2", "-0", "0*7", "n0-4"], "float": ["0.0", "0", "-0.0", "2.5-x0", "0e0"], "complex": ["0j", "0", "0.0+0j", "z0-z0", "-0j"]}
NARROW = {"int": lambda k: str(k + 1), "float": lambda k: str(k + 1), "complex": lambda k: str(k + 1) if k % 2 else "%d.5" % (k + 1)}   # literals narrower than the declared type
PYN = {"int": lambda k: k + 1, "float": lambda k: float(k + 1), "complex": lambda k: complex(k + 1) if k % 2 else complex(k + 1.5)}


def array_text(t, r, c, ps, shape, neg=False):
    rows = []
    for i in range(r):
        if neg == "zeros":
            rows.append(", ".join(("{u%d}" % (i * c + j)) if (i * c + j) in ps else (VALS[t](i * c + j) if (i * c + j) % 3 == 1 else ZERO_FORMS[t][(i * c + j) % len(ZERO_FORMS[t])]) for j in range(c)))
            continue
        if neg == "narrow":
            rows.append(", ".join(("{u%d}" % (i * c + j)) if (i * c + j) in ps else NARROW[t](i * c + j) for j in range(c)))
            continue
        rows.append(", ".join(("{u%d}" % (i * c + j)) if (i * c + j) in ps else (NEG if (neg and (i * c + j) % 2) else VALS)[t](i * c + j) for j in range(c)))
    return "%s array A%s =\n" % (t, "" if shape is None else "[%s]" % ", ".join(map(str, shape))) + "".join("    " + x + "\n" for x in rows)


def array_case(c):
    import sympy as sym
    t, r, cc, ps, shape, neg = c
    ps = set(ps)
    n = r * cc
    text = H + ("int n0 = 4\nfloat x0 = 2.5\ncomplex z0 = 1-2j\n" if neg == "zeros" else "") + (PRE_STMTS if (r + cc + len(ps)) % 2 else "") + array_text(t, r, cc, ps, shape, neg) + "G(A) | 0\n"
    expect_ok = shape is None or tuple(shape) == (r, cc)
    p, e = _load(text)
    if e is not None:
        if expect_ok:
            return ("C05/array-rejected-valid" + ("-with-%s-params" % ("2+" if len(ps) > 1 else len(ps))), common.exc_sig(e))
        return None
    if not expect_ok:
        return ("C05/array-wrong-shape-accepted", "declared %r written %r -> %r" % (shape, (r, cc), getattr(p.variables.get("A"), "shape", None)))
    A = p.variables.get("A")
    arg = p.operations[-1]["args"][0]
    for what, M in (("variable", A), ("argument", arg)):
        if observe.kind(M) != "a" or M.ndim != 2 or M.shape != (r, cc):
            return ("C05/array-shape", "%s has shape %r, written %r" % (what, getattr(M, "shape", None), (r, cc)))
        for i in range(r):
            for j in range(cc):
                k = i * cc + j
                got = M[i, j]
                if k in ps:
                    if not (isinstance(got, sym.Expr) and got == sym.Symbol("u%d" % k)):
                        return ("C05/array-layout" + ("-2+params" if len(ps) > 1 else "-1param"), "%s[%d,%d] is %r, written {u%d}; array %r" % (what, i, j, got, k, M.tolist()))
                else:
                    want = (PYV[t](k) if k % 3 == 1 else PYV[t](0) * 0) if neg == "zeros" else PYN[t](k) if neg == "narrow" else (PYV[t](k) if not (neg and k % 2) else -PYV[t](k))
                    if observe.kind(got) != KIND[t] and not isinstance(got, sym.Expr):
                        return ("C05/array-element-kind", "%s[%d,%d] is %r (%s), declared %s" % (what, i, j, got, observe.kind(got), t))
                    if isinstance(got, sym.Expr) or not observe.veq(complex(got), complex(want), 0):
                        return ("C05/array-layout" + ("-2+params" if len(ps) > 1 else ("-1param" if ps else "")), "%s[%d,%d] is %r, written %r; array %r" % (what, i, j, got, want, M.tolist()))
        if not ps and M.dtype.kind != KIND[t]:
            return ("C05/array-dtype", "%s dtype %s, declared %s" % (what, M.dtype, t))
    if set(p.parameters) != {"u%d" % k for k in ps}:
        return ("C05/array-parameters", "parameters %r, written %r" % (sorted(p.parameters), sorted(ps)))
    return None


def ragged_case(c):
    """c = (type, lens[, declared shape or None[, position of a template parameter or None]])"""
    t, lens = c[0], c[1]
    decl = c[2] if len(c) > 2 else None
    ppos = c[3] if len(c) > 3 else None
    vals = [VALS[t](i) for i in range(sum(lens))]
    if ppos is not None:
        vals[ppos] = "{w}"
    it = iter(vals)
    rows = [", ".join(next(it) for _ in range(n)) for n in lens]
    text = H + "%s array A%s =\n" % (t, ("[%s]" % ", ".join(map(str, decl))) if decl else "") + "".join("    " + x + "\n" for x in rows) + "G(A) | 0\n"
    p, e = _load(text)
    if e is None:
        tot = sum(lens)
        key = "C05/ragged-accepted" + ("-divisible" if tot % len(lens) == 0 else "") + ("-declared-shape" if decl else "") + ("-with-parameter" if ppos is not None else "")
        return (key, "rows of lengths %r%s silently became %r" % (list(lens), (" declared %r" % (decl,)) if decl else "", p.variables["A"].tolist()))
    return None


def index_case(c):
    t, r, cc, k, form = c
    idx = {"lit": str(k), "expr": "n+%d" % (k - 1) if k >= 1 else "n-1", "grp": "(%d)" % k}[form]
    text = H + "int n = 1\n" + array_text(t, r, cc, (), None) + "G(A[%s], A[%s]*2) | 0\n%s w = A[%s]\n" % (idx, idx, t, idx)
    p, e = _load(text)
    if e is not None:
        return ("C05/index-rejected:" + type(e).__name__, common.exc_sig(e))
    want = PYV[t](k)
    a0, a1 = p.operations[0]["args"]
    w = p.variables.get("w")
    for what, got, wv in (("A[k]", a0, want), ("A[k]*2", a1, want * 2), ("w", w, want)):
        if observe.kind(got) != KIND[t] or not observe.veq(got, wv, 1e-12):
            return ("C05/index-value", "%s for k=%s on %dx%d %s array is %r, expected %r" % (what, idx, r, cc, t, got, wv))
    return None


def whole_array_param_case(c):
    """`float array A[r, c] =\\n    {P}`: free parameters P_i_j, variable is an r x c array of those symbols"""
    import sympy as sym
    t, r, cc = c
    text = H + "%s array A[%d, %d] =\n    {P}\nG(A) | 0\nK(%s) | 1\n" % (t, r, cc, ", ".join("A[%d]" % k for k in range(r * cc)))
    p, e = _load(text)
    if e is not None:
        return ("C05/whole-array-param-rejected", common.exc_sig(e))
    A = p.variables.get("A")
    if observe.kind(A) != "a" or A.shape != (r, cc):
        return ("C05/whole-array-param-shape", "shape %r" % (getattr(A, "shape", None),))
    for i in range(r):
        for j in range(cc):
            if A[i, j] != sym.Symbol("P_%d_%d" % (i, j)):
                return ("C05/whole-array-param-layout", "A[%d,%d] is %r" % (i, j, A[i, j]))
    if set(p.parameters) != {"P_%d_%d" % (i, j) for i in range(r) for j in range(cc)}:
        return ("C05/whole-array-param-parameters", repr(sorted(p.parameters)))
    for k, got in enumerate(p.operations[1]["args"]):       # A[k] is the k-th element in row-major order
        if got != sym.Symbol("P_%d_%d" % divmod(k, cc)):
            return ("C05/whole-array-param-index", "A[%d] is %r, expected P_%d_%d" % ((k, got) + divmod(k, cc)))
    arg = p.operations[0]["args"][0]
    if observe.kind(arg) != "a" or arg.shape != (r, cc) or any(arg[i, j] != sym.Symbol("P_%d_%d" % (i, j)) for i in range(r) for j in range(cc)):
        return ("C05/whole-array-param-argument", repr(arg))
    return None


EXPR_ROWS = {
    "int": ([["n0", "n0*2+1", "-n0"], ["B0[1]", "2**3", "7"]], [[4, 9, -4], [-6, 8, 7]]),
    "float": ([["x0", "n0/8", "A0[3]"], ["-x0**2", "2*x0", "1e-7"]], [[2.5, 0.5, 4.25], [6.25, 5.0, 1e-7]]),
    "complex": ([["z0", "z0*z0", "x0"], ["-2j", "n0", "2*z0"]], [[1 - 2j, -3 - 4j, 2.5], [-2j, 4, 2 - 4j]]),
    # rows made only of literals and of variables whose names Python's float()/int()/complex() would also accept
    "float/named": ([["inf", "1.5", "3"], ["nan", "-inf", "infinity"]], [[0.75, 1.5, 3.0], [1.5, -0.75, 2.25]]),
    "float/named2": ([["e", "nan"], ["2", "+inf"]], [[2.0, 1.5], [2.0, 0.75]]),
    "complex/named": ([["inf", "2j"], ["nan", "1"]], [[0.75, 2j], [1.5, 1]]),
    "int/named": ([["tau", "2"], ["-tau", "big"]], [[3, 2], [-3, 9007199254740993]]),
    "int/big-mixed": ([["9007199254740993", "14/2", "3"], ["2**3", "-9007199254740993", "6/3"]], [[9007199254740993, 7, 3], [8, -9007199254740993, 2]]),
    "int/big": ([["9007199254740993", "-9223372036854775807"], ["4611686018427387905", "1"]], [[9007199254740993, -9223372036854775807], [4611686018427387905, 1]]),
}


def exprarray_case(c):
    """array entries written as expressions over declared variables and elements of other arrays"""
    t, transpose = c
    rows, want = EXPR_ROWS[t]
    t = t.split("/")[0]
    if transpose:
        rows = [list(r) for r in zip(*rows)]
        want = [list(r) for r in zip(*want)]
    text = H + PRE + "%s array E =\n" % t + "".join("    " + ", ".join(r) + "\n" for r in rows) + "G(E, E[1]) | 0\n"
    p, e = _load(text)
    if e is not None:
        return ("C05/expression-array-rejected:" + type(e).__name__, common.exc_sig(e))
    E = p.variables.get("E")
    if observe.kind(E) != "a" or E.shape != (len(rows), len(rows[0])) or E.dtype.kind != KIND[t]:
        return ("C05/expression-array-shape-or-dtype", "%r %r" % (getattr(E, "shape", None), getattr(E, "dtype", None)))
    for i, r in enumerate(want):
        for j, w in enumerate(r):
            if (t == "int" and int(E[i, j]) != w) or not observe.veq(complex(E[i, j]), complex(w), 1e-12):
                return ("C05/expression-array-layout", "E[%d,%d] is %r, written %s = %r" % (i, j, E[i, j], rows[i][j], w))
    flat = [w for r in want for w in r]
    if not observe.veq(complex(p.operations[0]["args"][1]), complex(flat[1]), 1e-12):
        return ("C05/index-value", "E[1] is %r" % (p.operations[0]["args"][1],))
    return None


def arrayexpr_case(c):
    """arrays in expressions: an argument computed from whole arrays is the element-wise result, and the variables
    still hold what was declared (also when the same array is used again afterwards)"""
    t, expr, pre = c
    import numpy as np
    vals = {"int": ([[1, -2], [3, 40]], [[5, 6], [-7, 8]]), "float": ([[0.5, -1.5], [2.0, 0.001]], [[10.0, 20.0], [30.0, 40.0]]), "complex": ([[1 + 2j, 0.5j], [-3.0, 2 - 1j]], [[1j, 2], [3, -4j]])}[t]
    lit = lambda v: ("%r" % v).strip("()") if not isinstance(v, complex) else (("%r" % v).strip("()"))
    decl = lambda nm, rows: "%s array %s =\n" % (t, nm) + "".join("    " + ", ".join(lit(x) for x in r) + "\n" for r in rows)
    text = H + pre + decl("M", vals[0]) + decl("N", vals[1]) + "G(%s) | 0\nH(M, N) | 1\nK(%s, M[1]) | 0\n" % (expr, expr)
    p, e = _load(text)
    if e is not None:
        return ("C05/array-expression-rejected:" + type(e).__name__, common.exc_sig(e) + " ;; " + expr)
    M, N_ = np.array(vals[0]), np.array(vals[1])
    want = eval(expr, {"M": M, "N": N_})
    ops = p.operations[len(p.operations) - 3:]
    for nm, w in (("M", M), ("N", N_)):
        got = p.variables.get(nm)
        if observe.kind(got) != "a" or got.shape != w.shape or not all(observe.veq(complex(a), complex(b), 0) for a, b in zip(got.flatten().tolist(), w.flatten().tolist())):
            return ("C05/array-variable-changed-by-a-later-expression", "after G(%s): %s is %r, declared %r" % (expr, nm, getattr(got, "tolist", lambda: got)(), w.tolist()))
    for k, (what, got) in enumerate((("first use", ops[0]["args"][0]), ("second use", ops[2]["args"][0]))):
        if observe.kind(got) != "a" or got.shape != want.shape or not all(observe.veq(complex(a), complex(b), 1e-12) for a, b in zip(got.flatten().tolist(), want.flatten().tolist())):
            return ("C05/array-expression-value", "%s of %s is %r, element-wise %r" % (what, expr, getattr(got, "tolist", lambda: got)(), want.tolist()))
    for nm, got, w in (("M", ops[1]["args"][0], M), ("N", ops[1]["args"][1], N_)):
        if observe.kind(got) != "a" or not all(observe.veq(complex(a), complex(b), 0) for a, b in zip(got.flatten().tolist(), w.flatten().tolist())):
            return ("C05/array-argument-after-expression", "H(M, N) after G(%s): %s arrives as %r" % (expr, nm, got.tolist()))
    if not observe.veq(complex(ops[2]["args"][1]), complex(M.flatten()[1]), 0):
        return ("C05/index-after-expression", "M[1] after %s is %r" % (expr, ops[2]["args"][1]))
    return None


ARRAY_EXPRS = ["M + N", "M - N", "N - M", "M + M", "-M", "M + N - M", "M * N", "N * M - N"]     # (array with scalar is not claimed by any property; the implementation refuses it)

ROLES = ["scalar", "scalar2", "array", "loop", "looplist", "looplist-self", "param", "keyword"]


def role_items(role, v, k):
    """items that use the name `v` in one role (k makes the values of repeated roles differ)"""
    from bbv.model.lang import N, V, B, P, U
    if role == "scalar":
        return [("decl", "float", v, N("%d.5" % (k + 1)))]
    if role == "scalar2":
        return [("decl", "int", v, N(str(7 + k)))]
    if role == "array":
        return [("arr", "float", v, None, [[N("%d.25" % (k + 1)), N("2.5")], [U("-", N("3.0")), N("4.0")]])]
    if role == "loop":
        return [("for", "int", v, ("range", 0, 2, None), [("stmt", "L%d" % k, [V(v)], [], [V(v)], "none")])]
    if role == "looplist":
        return [("for", "float", v, ("vals", [N("0.5"), N("1.5")], "sq"), [("stmt", "M%d" % k, [], [("k", V(v))], [N("1")], "none")])]
    if role == "looplist-self":
        # the listed values mention the name itself (it must have been declared before; they are evaluated before the loop starts)
        return [("for", "float", v, ("vals", [V(v), B("*", N("2"), V(v)), B("+", B("*", N("4"), V(v)), N("1"))], "sq"), [("stmt", "S%d" % k, [V(v)], [], [N("1")], "none")])]
    if role == "param":
        return [("stmt", "P%d" % k, [B("*", N("2"), P(v))], [], [N("0")], "none")]
    if role == "keyword":
        return [("stmt", "K%d" % k, [N("1")], [(v, N("0.25"))], [N("0")], "none")]
    raise ValueError(role)


def nameroles_case(c):
    """one identifier in several roles, one after the other (declared scalar / array, loop variable, template
    parameter, keyword name), then used: the variables and operations are what the reference model says"""
    from bbv.model import denote, lang
    from bbv.model.lang import N, V
    roles, v = c
    items = [("decl", "int", "n0", N("4"))]
    for k, r in enumerate(roles):
        items += role_items(r, v, k)
        items.append(("stmt", "U%d" % k, [V("n0")], [], [N("0")], "none"))
    sc0 = dict(name="r", version="1.0", items=list(items))
    # a final use of the name, if it still denotes something
    use = ("stmt", "Use", [V(v)], [("k", V(v))], [N("0")], "none")
    for sc in (dict(sc0, items=items + [use]), sc0):
        try:
            m = denote.Model().run(sc)
            break
        except denote.Refused:
            m = None
        except (denote.OutOfDomain, AttributeError, TypeError):
            return None         # (an array used as a number: not a valid script)
    if m is None:
        return None
    text = lang.render(sc)
    p, e = _load(text)
    if e is not None:
        return ("C05/name-roles:rejected:" + type(e).__name__, "%s ;; roles %r of %r ;; %s" % (common.exc_sig(e), roles, v, text.replace("\n", " / ")[-200:]))
    errs = denote.compare(m, p, check_vars=True)
    if errs:
        return ("C05/name-roles:" + "|".join(sorted(set(x.split("-")[0] if x.startswith("var") else "operations" for x in errs))), "%s ;; roles %r of %r ;; %s" % ("; ".join(errs)[:200], roles, v, text.replace("\n", " / ")[-300:]))
    return None


def repeated_params_case(c):
    import sympy as sym
    """the same template parameter written at several positions of one array, other parameters in between"""
    t, r, cc, pattern = c
    n = r * cc
    names = {"a": "pa", "b": "pb", "c": "pc"}
    rows = []
    want = []
    for i in range(r):
        row = []
        for j in range(cc):
            ch = pattern[(i * cc + j) % len(pattern)]
            row.append("{%s}" % names[ch] if ch in names else VALS[t](i * cc + j))
            want.append(names.get(ch))
        rows.append(", ".join(row))
    text = H + "%s array A =\n" % t + "".join("    " + x + "\n" for x in rows) + "G(A) | 0\n"
    p, e = _load(text)
    if e is not None:
        return ("C05/array-rejected-valid-with-repeated-params", common.exc_sig(e) + " ;; " + " / ".join(rows))
    A = p.variables.get("A")
    if observe.kind(A) != "a" or A.shape != (r, cc):
        return ("C05/array-shape", "repeated parameters: shape %r, written %r" % (getattr(A, "shape", None), (r, cc)))
    for k, w in enumerate(want):
        got = A[k // cc, k % cc]
        if w is not None:
            if not (isinstance(got, sym.Expr) and got == sym.Symbol(w)):
                return ("C05/array-layout-repeated-params", "A[%d,%d] is %r, written {%s}; rows %s -> %r" % (k // cc, k % cc, got, w, " / ".join(rows), A.tolist()))
        elif isinstance(got, sym.Expr) or not observe.veq(complex(got), complex(PYV[t](k)), 0):
            return ("C05/array-layout-repeated-params", "A[%d,%d] is %r, written %s; rows %s -> %r" % (k // cc, k % cc, got, VALS[t](k), " / ".join(rows), A.tolist()))
    if set(p.parameters) != {names[ch] for ch in pattern if ch in names}:
        return ("C05/array-parameters", "parameters %r for rows %s" % (sorted(p.parameters), " / ".join(rows)))
    return None


FAMILIES = {"repeated": repeated_params_case, "nameroles": nameroles_case, "arrayexpr": arrayexpr_case, "exprarray": exprarray_case, "scalar": scalar_case, "array": array_case, "ragged": ragged_case, "index": index_case, "whole": whole_array_param_case}


@common.guarded("C05")
def _case(c):
    return FAMILIES[c[0]](c[1])


def build(ctx):
    cases = []
    for t, lst in SCALARS.items():
        for init, want in lst:
            cases.append(("scalar", (t, init, want)))
    R = (1, 2, 3, 4) if ctx.quick else (1, 2, 3, 4, 5, 6)
    for t in VALS:
        for r, c in itertools.product(R, repeat=2):
            n = r * c
            if n <= 4:
                subsets = [s for k in range(n + 1) for s in itertools.combinations(range(n), k)]
            else:
                subsets = [s for k in range(3 if ctx.quick else 4) for s in itertools.combinations(range(n), k)] + [tuple(range(n))]
            for ps in subsets:
                if len(ps) == 1 and n == 1:
                    continue    # a single {p} is the whole-array parameter form
                shapes = [None, (r, c)] + ([(c, r), (1, n), (n, 1), (n,)] if (len(ps) <= 1 or n <= 4) else [])
                seen = set()
                for shape in shapes:
                    if shape in seen:
                        continue
                    seen.add(shape)
                    if shape is not None and len(ps) == n and n == 1:
                        continue
                    cases.append(("array", (t, r, c, ps, shape, False)))
                if not ps:
                    cases.append(("array", (t, r, c, ps, None, True)))
                if len(ps) <= 2 and n <= 6:
                    cases.append(("array", (t, r, c, ps, None, "narrow")))
                if len(ps) <= 2:
                    cases.append(("array", (t, r, c, ps, None, "zeros")))
                    if not ps:
                        cases.append(("array", (t, r, c, ps, (r, c), "zeros")))
            for k in range(n):
                for form in ("lit", "expr", "grp"):
                    cases.append(("index", (t, r, c, k, form)))
            if (r, c) != (1, 1) or True:
                cases.append(("whole", (t, r, c)))
    for t in EXPR_ROWS:
        for tr in (False, True):
            cases.append(("exprarray", (t, tr)))
    for t in VALS:
        for (r, c), pattern in itertools.product(((1, 4), (2, 2), (2, 3), (3, 2)), ("aba1", "ab1a", "a1a", "aab", "abab", "a1ba", "abca", "1aa", "abcab1")):
            cases.append(("repeated", (t, r, c, pattern)))
    for n_ in (2, 3):
        for roles in itertools.product(ROLES, repeat=n_):
            if len(set(roles)) == 1 and roles[0] in ("param", "keyword"):
                continue
            cases.append(("nameroles", (roles, "v" if n_ == 2 else "r")))
    for t in VALS:
        for ex_ in ARRAY_EXPRS:
            if t == "int" and "/" in ex_:
                continue
            for pre in ("", "P | 3\nfor int i in 0:2\n    Q(i) | i\n"):
                cases.append(("arrayexpr", (t, ex_, pre)))
    for t in tuple(VALS):
        for nrows in (2, 3) if ctx.quick else (2, 3, 4):
            for lens in itertools.product((1, 2, 3), repeat=nrows):
                if len(set(lens)) > 1:
                    cases.append(("ragged", (t, lens)))
                    # the same with a declared shape: every two-dimensional shape the number of entries fits, the number of rows
                    # with the longest / shortest row, and a one-dimensional shape; once more with a template parameter among the entries
                    tot = sum(lens)
                    decls = {(r, tot // r) for r in range(1, tot + 1) if tot % r == 0} | {(len(lens), max(lens)), (len(lens), min(lens)), (tot,), (max(lens),)}
                    for decl in sorted(decls):
                        cases.append(("ragged", (t, lens, decl, None)))
                        if t == "float":
                            cases.append(("ragged", (t, lens, decl, tot - 1)))
                            cases.append(("ragged", (t, lens, decl, 0)))
    return cases


def run(ctx):
    cases = common.shard(build(ctx), ctx.seed)
    res = pool.pmap(_case, cases, chunk=50)
    V = common.Violations(keep=6)
    fam = collections.Counter()
    for c, r in zip(cases, res):
        fam[c[0]] += 1
        if r == "TIMEOUT":
            V.add("C05/no-outcome", {"case": repr(c)}, "timeout")
        elif r is not None:
            V.add(r[0], {"case": repr(c)}, r[1])
    nontrivial = sum(1 for c in cases if c[0] != "scalar" or not c[1][1].replace("-", "").replace(".", "").replace('"', "").isalnum())
    cov = {"evaluations": len(cases), "distinct_nontrivial": nontrivial,
           "rule": "every scalar declaration of the type x initialiser table; every array declaration: element type x rows x columns (<=4, thorough <=6) x declared-shape variant "
                   "{none, correct, transposed, 1xN, Nx1, (N,)} x every subset of parameter positions (all subsets for <=4 elements, subsets of size <=2 (thorough <=3) and the full set otherwise), distinct element values; "
                   "every non-constant row-length vector in {1,2,3}^rows; every in-range index in literal / expression / bracketed form; whole-array parameters for every shape. "
                   "non-trivial = an array, an index, or a scalar with a non-literal initialiser; all cases distinct by construction",
           "samples": [repr(c) for c in common.sample(cases, 6)], "exhaustive": True, "by_family": dict(fam),
           "bounds": {"rows_cols": list((1, 2, 3, 4) if ctx.quick else (1, 2, 3, 4, 5, 6))}}
    return {"coverage": cov, "violations": V.records(), "assumptions": ["element values are distinct so any rearrangement is visible", "dtype of arrays containing parameters is not constrained"]}


def replay(case):
    import ast
    c = ast.literal_eval(case["case"])
    r = _case(c)
    return (r is not None), repr(r)
