"""The C01 / C09 / C15 equivalence between two programs (original vs re-loaded)."""
from bbv.core import observe


def val_equiv(a, b):
    """numbers / booleans / strings / lists / arrays exact (kind-aware, sign of zero included);
    symbolic arguments equal by evaluation to 1e-9; register transforms: same register set, same function"""
    return observe.veq(a, b, rtol=0, sym_rtol=1e-9, exact_zero_sign=True)


def prog_equiv(a, b, variables=None):
    """list of differences (empty = equivalent).  variables: None (ignore) or iterable of names to compare."""
    d = []
    if a.name != b.name:
        d.append("name")
    if a.version != b.version:
        d.append("version")
    for tag, x, y in (("target", a.target, b.target), ("type", a.programtype, b.programtype)):
        if x.get("name") != y.get("name"):
            d.append(tag + "-name")
        xo, yo = x.get("options", {}), y.get("options", {})
        if list(xo) != list(yo):
            d.append(tag + "-option-names %r vs %r" % (list(xo), list(yo)))
        else:
            for k in xo:
                if not val_equiv(xo[k], yo[k]):
                    d.append("%s-option-%s %r vs %r" % (tag, k, xo[k], yo[k]))
    if set(a.parameters) != set(b.parameters):
        d.append("parameters %r vs %r" % (sorted(a.parameters), sorted(b.parameters)))
    if len(a.operations) != len(b.operations):
        d.append("number-of-operations %d vs %d" % (len(a.operations), len(b.operations)))
        return d
    for i, (x, y) in enumerate(zip(a.operations, b.operations)):
        if x["op"] != y["op"]:
            d.append("op%d-gate" % i)
        if [int(m) for m in x["modes"]] != [int(m) for m in y["modes"]] or any(observe.kind(m) != "i" for m in y["modes"]):
            d.append("op%d-modes %r vs %r" % (i, x["modes"], y["modes"]))
        xa, ya = x.get("args", []), y.get("args", [])
        if len(xa) != len(ya):
            d.append("op%d-nargs" % i)
        else:
            for j, (p, q) in enumerate(zip(xa, ya)):
                if not val_equiv(p, q):
                    d.append("op%d-arg%d %r vs %r" % (i, j, p, q))
        xk, yk = x.get("kwargs", {}), y.get("kwargs", {})
        if list(xk) != list(yk):
            d.append("op%d-kwarg-names %r vs %r" % (i, list(xk), list(yk)))
        else:
            for k in xk:
                if not val_equiv(xk[k], yk[k]):
                    d.append("op%d-kwarg-%s %r vs %r" % (i, k, xk[k], yk[k]))
    if variables is not None:
        for n in variables:
            if n not in b.variables:
                d.append("variable-%s-missing" % n)
            elif not val_equiv(a.variables[n], b.variables[n]):
                d.append("variable-%s %r vs %r" % (n, a.variables[n], b.variables[n]))
    return d


def classify(diffs):
    """coarse class of a difference list (used in violation keys)"""
    import re
    out = set()
    for x in diffs:
        x = x.split(" ")[0]
        x = re.sub(r"^op\d+-", "op-", x)
        x = re.sub(r"arg\d+", "arg", x)
        x = re.sub(r"(kwarg|option)-\w+$", r"\1", x)
        out.add(x)
    return "|".join(sorted(out))
