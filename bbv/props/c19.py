"""C19  Loading and serialising are deterministic across runs and hash seeds.

(1) in-process: for every script and every pipeline stage, the schedule explorer enumerates every combination
    of iteration orders at every symbol-set iteration reached from blackbird code; all schedules of a stage
    must give ONE observation (content digest with register lists normalised + serialised text).  Stages are
    explored one after the other; because each must have a single outcome, the composition is covered.
(2) real processes: the whole menu runs in one interpreter per PYTHONHASHSEED of a *seed cover* - seeds are
    added until the builtin-set iteration orders of every group of symbol names (as str and as Symbol) have
    realised all k! permutations - so a set-iteration site the seam does not know about is still driven
    through every order it can take.  All processes must agree with each other and with the in-process value.
"""
import collections
import hashlib
import itertools
import json
import os
import subprocess
import sys

from bbv.core import pool, sched, observe
from . import common

LEVEL = "model_checking"
H = "name d\nversion 1.0\n"
GROUPS = [["r", "r1", "r12"], ["a", "alpha"], ["e", "x1"], ["a", "b", "c"], ["a_1", "a", "alpha"], ["q0", "q1", "q2"], ["q1", "q10"], ["phi", "p", "ph"]]
VALS = {"q1a": 0.9, "q2_0": -0.4, "pix": 1.7, "sqrt2": 0.2, "p0": 2.2, "a": 0.5, "alpha": -1.25, "b": 2.0, "c": 0.75, "e": 1.5, "x1": 3.0, "a_1": 0.1, "phi": 0.3, "p": 1.1, "ph": -0.7, "n": 2.5, "phi_b": 0.8, "r": 1.4, "r1": -0.6, "r12": 2.1}


def menu(d):
    M = collections.OrderedDict()
    M["two-overlapping"] = H + "\nG({a}+2*{alpha}) | 0\n"
    M["exp-letter"] = H + "\nG(1e-7*{e}+{x1}, 2.5e3*{e}) | 0\n"
    M["three-params"] = H + "\nG({a}*{b}-{c}, {c}/{a}) | [0, 1]\nH({b}) | 1\n"
    M["three-overlapping"] = H + "\nG({a_1}-{a}*{alpha}, k={alpha}+{a_1}) | 0\n"
    M["prefix-names"] = H + "\nG({phi}+{p}*{ph}, {p}) | 0\nH(k={ph}-{phi}) | 1\n"
    M["lookalike-names"] = H + "\nG({q1a}-{a}, {q2_0}*{pix}) | 0\nH(k={sqrt2}+{p0}) | 1\n"
    M["kw-params"] = H + "\nG(1, k={a}-{b}, l=[1, 2]) | 0\n"
    M["three-registers"] = H + "\nMeasureX | 0\nMeasureX | 1\nMeasureX | 2\nG(q1-q0*q2, q0/q2) | 3\n"
    M["regs-cross-terms"] = H + "\nMeasureX | 0\nG(q0*q1 + 0.5*q0 + 2*q1, k=q1*q2 - q2 + 3*q1) | 3\nH(q2*q0*q1 - q0 + q1*4) | 4\n"
    M["string-p-names"] = H + "\nG(\"p1\", tag=\"p20\", l=[\"p0\", \"q0\"]) | 0\n"
    M["prefix-names-2"] = H + "\nG({phi}/{phi_b}, 2*{r1}-{r}) | 0\nH(k={r}*{r1}*{r12}) | 1\n"
    M["two-symbolic-kwargs"] = H + "\nG(1, alpha={a}*2, beta={b}-1, gamma={a}+{b}, delta=0.5) | 0\nH(zeta={c}, eta={a}) | 1\n"
    M["regs-float-sum"] = H + "\nG(0.1*q0 + 0.2*q1 + 0.3*q2 + 0.25) | 3\n"
    M["regs-float-sum-cancelling"] = H + "\nH(k=1.0e16*q0 + 1.5*q1 - 1.0e16*q2) | 4\n"
    M["regs-q1-q10"] = H + "\nG(q10-2*q1, k=q1/q10) | 0\n"
    M["params-and-regs"] = H + "\nG({a}+{alpha}, q1-q0) | 0\nH({b}) | [1, 0]\n"
    M["array-params"] = H + "\nfloat array A =\n    {a}, 1\n    {alpha}, {b}\nG({a}) | 0\n"
    M["array-arguments"] = H + "\nfloat array A =\n    1.5, 2.5\ncomplex array U =\n    1j, 2\n    3, -4j\nG(A, {a}) | 0\nH(U, k=A) | [1, 0]\nK(A) | 1\n"
    M["zeros-positive"] = H + "\nG(0.0, 1, k=[0.0, 0j], l=1.0) | 0\nH(True, 0) | 1\n"
    M["zeros-negative"] = H + "\nG(-0.0, 1.0, k=[-0.0, -0j], l=1) | 0\nH(1, False) | 1\n"
    M["affine"] = H + "\nG(2*{a}-1, 1-{b}/3) | 0\nH(k=0.5*{a}*{b}-{a}+2) | 1\n"
    M["scalar-var"] = H + "\nfloat x = {a}*{alpha}\nG(x, {b}) | 0\n"
    M["whole-array"] = H + "\nfloat array A[2, 2] =\n    {P}\nG({a}) | 0\n"
    M["tdm"] = H + "type tdm (temporal_modes=2)\n\nfloat array p0 =\n    0.5, 1.5\nint array p1 =\n    1, 2\nG(p0, {a}+{alpha}) | 0\nH(p1) | 1\n"
    M["tdm-loop-vars"] = H + "type tdm (temporal_modes=3)\n\nfloat array p3 =\n    0.1, 0.2\nfloat alpha = 0.5\nint array p1 =\n    1, 2\nfloat array p0 =\n    3.5, 4.5\nint n = 2\nfloat array p2 =\n    5.5, 6.5\nfor int i in 0:2\n    G(p0, alpha) | i\nH(p1, p2, p3) | n\n"
    M["loop"] = H + "\nfor int i in 0:3\n    G({a}*i+{b}, q0-q1) | i\n"
    M["modes-1-8"] = H + "\nG | [8, 1]\nH({a}-{b}) | [17, 0, 9]\n"
    M["include-2-modes"] = H + 'include "%s"\n\nSub(x=1, y=2) | [3, 4]\nSub(x=2, y=1) | [9, 0]\n' % os.path.join(d, "sub.xbb")
    M["include-3-modes"] = H + 'include "%s"\n\nTri | [5, 6, 7]\nTri | [2, 1, 0]\nG({a}+{alpha}) | 0\n' % os.path.join(d, "tri.xbb")
    M["include-crossing-names"] = H + 'include "%s"\n\nInner(a={b}, b={c}) | 0\nInner(a={c}+{a}, b={a}) | 1\n' % os.path.join(d, "inner.xbb")
    M["options"] = H + "target g (l=[1, 2], s=\"a\")\ntype t (k=2)\n\nG({b}-{a}) | 0\n"
    return M


def write_files(d):
    os.makedirs(d, exist_ok=True)
    open(os.path.join(d, "sub.xbb"), "w").write("name Sub\nversion 1.0\n\nA({x}-{y}) | 8\nB({y}) | [1, 8]\n")
    open(os.path.join(d, "inner.xbb"), "w").write("name Inner\nversion 1.0\n\nRgate({a} + 2*{b}) | 0\nK(k={b}-{a}) | 0\n")
    open(os.path.join(d, "tri.xbb"), "w").write("name Tri\nversion 1.0\n\nA | 16\nB | [1, 16]\nC(0.5) | [8, 1]\n")


def file_menu(d):
    """scripts that exist as files and name their includes relative to themselves; every process of the seed cover
    loads them from a different working directory, some of which hold other files under the same relative names"""
    return collections.OrderedDict([
        ("rel-include-same-dir", os.path.join(d, "proj", "main_rel.xbb")),
        ("rel-include-subdir", os.path.join(d, "proj", "main_sub.xbb")),
        ("rel-include-nested", os.path.join(d, "proj", "main_nested.xbb")),
    ])


def cwds(d):
    return [os.path.join(d, "proj"), os.path.join(d, "decoy"), "/", d, os.path.join(d, "decoy", "lib")]


def write_file_menu(d):
    w = lambda rel, text: (os.makedirs(os.path.dirname(os.path.join(d, rel)), exist_ok=True), open(os.path.join(d, rel), "w", encoding="utf-8").write(text))
    w("proj/sub.xbb", "name Sub\nversion 1.0\n# f\u00fcr \u03c0/2\n\nA({x}-{y}) | 8\nB({y}, \"caf\u00e9 \u00b5m\") | [1, 8]\n")
    w("proj/lib/tri.xbb", "name Tri\nversion 1.0\n\nA | 16\nB | [1, 16]\nC(0.5) | [8, 1]\n")
    w("proj/lib/mid.xbb", "name Mid\nversion 1.0\ninclude \"tri.xbb\"\n\nTri | [2, 0, 1]\nM | 2\n")
    w("proj/main_rel.xbb", H + 'include "sub.xbb"\n\nSub(x=1, y=2) | [3, 4]\nG({a}+{alpha}, "na\u00efve \u03c0") | 0   # \u00e9\n')
    w("proj/main_sub.xbb", H + 'include "lib/tri.xbb"\n\nTri | [5, 6, 7]\nTri | [2, 1, 0]\n')
    w("proj/main_nested.xbb", H + 'include "lib/mid.xbb"\n\nMid | [4, 5, 6]\nTri | [0, 1, 2]\n')
    # other programs under the same relative names, where a process may happen to be working
    w("decoy/sub.xbb", "name Sub\nversion 1.0\n\nDecoy({x}) | 8\nDecoy({y}) | 1\n")
    w("decoy/lib/tri.xbb", "name Tri\nversion 1.0\n\nDecoy | [16, 1, 8]\n")
    w("decoy/lib/mid.xbb", "name Mid\nversion 1.0\n\nDecoy | [0, 1, 2]\n")
    w("decoy/tri.xbb", "name Tri\nversion 1.0\n\nDecoy | [16, 1, 8]\n")
    w("decoy/lib/sub.xbb", "name Sub\nversion 1.0\n\nDecoy({x}, {y}) | [1, 8]\n")


def file_pipeline(path):
    import blackbird
    observe.reset_tables()
    p = blackbird.load(path)
    return {"content": repr(observe.prog_canon(p, exact=True)), "text": blackbird.dumps(p)}


def loads_relative():
    import blackbird
    observe.reset_tables()
    p = blackbird.loads(H + 'include "sub.xbb"\n\nSub(x=1, y=2) | [3, 4]\nG({a}+{alpha}) | 0\n')
    return {"content": repr(observe.prog_canon(p, exact=True)), "text": blackbird.dumps(p)}


def repeat_check(text):
    """'every run': doing the same thing a second time on the same objects gives the same text"""
    import blackbird
    observe.reset_tables()
    p = blackbird.loads(text)
    out = {}
    t1 = blackbird.dumps(p)
    t2 = blackbird.dumps(p)
    out["dumps-twice-same-text"] = (t1 == t2)
    if p.is_template():
        try:
            q = p(**_vals(p))
            u1 = blackbird.dumps(q)
            u2 = blackbird.dumps(q)
            observe.reset_tables()
            fresh = blackbird.dumps(blackbird.loads(text)(**_vals(p)))
            out["instance-dumps-twice-same-text"] = (u1 == u2)
            out["instance-text-independent-of-earlier-dumps"] = (u1 == fresh)
            # a call that is refused (a value is missing) must leave no trace either
            vals = _vals(p)
            if len(vals) >= 1:
                try:
                    p(**{k_: v_ for k_, v_ in list(vals.items())[1:]})
                    out["missing-value-refused"] = False
                except ValueError:
                    pass
                except Exception as e:  # noqa
                    out["missing-value-raises"] = type(e).__name__
                out["instance-text-independent-of-an-earlier-refused-call"] = (blackbird.dumps(p(**vals)) == fresh)
        except Exception as e:  # noqa
            out["instance"] = "EXC:" + type(e).__name__
    observe.reset_tables()
    out["second-load-same-text"] = (blackbird.dumps(blackbird.loads(text)) == t1)
    return out


def _h(x):
    return hashlib.sha1(repr(x).encode()).hexdigest()[:16]


def _vals(p):
    out = {}
    for n in p.parameters:
        if n.startswith("P_"):
            out["P"] = [[1.5, -2.0], [0.25, 4.0]]
        else:
            out[n] = VALS[n]
    return out


def stage(name, text):
    """one pipeline stage on `text`; returns a JSON-able observation (must be schedule independent)"""
    import blackbird
    from blackbird.utils import to_DiGraph, match_template
    observe.reset_tables()
    p = blackbird.loads(text)
    if name == "load":
        return {"content": repr(observe.prog_canon(p, exact=True)), "parameters": sorted(p.parameters), "modes": sorted(int(m) for m in p.modes)}
    if name == "dumps":
        return {"text": blackbird.dumps(p)}
    if name == "call":
        if not p.is_template():
            return {"n/a": True}
        q = p(**_vals(p))
        try:
            t = blackbird.dumps(q)
        except Exception as e:  # noqa
            t = "EXC:" + type(e).__name__
        return {"instance": repr(observe.prog_canon(q, exact=True)), "text": t}
    if name == "graph":
        G = to_DiGraph(p)
        return {"nodes": repr(sorted((n, d["name"], repr(d["modes"])) for n, d in G.nodes(data=True))), "edges": repr(sorted(G.edges()))}
    if name == "match":
        if not p.is_template():
            return {"n/a": True}
        try:
            q = p(**_vals(p))
            r = match_template(p, q)
            return {"match": repr(sorted((k, repr(v)) for k, v in r.items()))}
        except Exception as e:  # noqa
            return {"match-exc": type(e).__name__ + ":" + str(e)[:80]}
    raise ValueError(name)


STAGES = ["load", "dumps", "call", "graph", "match"]


def pipeline(text):
    """all stages + second generation; plain execution (no schedule control)"""
    import blackbird
    out = {}
    for s in STAGES:
        out[s] = stage(s, text)
    t1 = out["dumps"]["text"]
    out["gen2-load"] = stage("load", t1)
    out["gen2-dumps"] = stage("dumps", t1)
    out["repeat"] = repeat_check(text)
    return out


def env_menu():
    """scripts whose evaluation or serialisation goes through process-wide settings of the libraries below (the warnings
    machinery, NumPy's print options): observed through load and dumps only, and only compared BETWEEN processes"""
    M = collections.OrderedDict()
    M["out-of-domain"] = H + "\nfloat v = -0.25\nG(sqrt(v), log(-1.0), arccosh(0.5), arcsin(2.0), arctanh(-3.0), arccos(-1.5)) | 0\nH(k=sqrt(-4), l=[log(v)]) | 1\n"
    M["computed-floats"] = H + "target g (w=0.1+0.2)\n\nint n = 3\nG(0.1+0.2, 1/3, sqrt(pi), 2*pi/n, k=exp(1)/7, l=[1/3, 0.1*3]) | 0\nfloat array A =\n    1/3, 0.1+0.2\ncomplex array U =\n    1/3+0.1j, 2j/7\nH(A, U, 1e-7/3, 1e22/7) | 1\n"
    M["overflow"] = H + "\nfloat z = 0.0\nG(exp(1000), 2.0**2000, 1/z, log(z)) | 0\n"
    M["long-array"] = H + "\nfloat array A =\n    " + ", ".join("1/%d" % k for k in range(3, 43)) + "\nint array B =\n    " + ", ".join(str(7 ** (k % 19)) for k in range(40)) + "\nG(A, k=B) | 0\n"
    return M


def env_pipeline(text):
    out = {}
    for s in ("load", "dumps"):
        try:
            out[s] = stage(s, text)
        except Exception as e:  # noqa
            out[s] = "EXC:" + type(e).__name__ + ":" + str(e)[:100]
    return out


def process_setting(seed):
    """what a process does to the libraries below before it starts (by position in the seed cover)"""
    return {2: "warnings-default", 4: "numpy-legacy-print", 6: "numpy-short-print+warnings-always"}.get(seed % 7, "")


def _explore_script(task):
    sched.install()
    key, text = task
    res = {}
    viol = []
    nsched = 0
    maxpoints = 0
    texts = [("gen1", text)]
    for gen, tx in texts:
        for s in STAGES if gen == "gen1" else ["load", "dumps"]:
            try:
                results, capped = sched.explore(lambda: json.dumps(stage(s, tx), sort_keys=True), cap=5000)
            except Exception as e:  # noqa
                viol.append(("C19/stage-raises:%s" % s, "%s on %s: %s" % (s, key, common.exc_sig(e)), []))
                continue
            nsched += len(results)
            maxpoints = max(maxpoints, max(len(ch) for ch, _ in results))
            outs = collections.OrderedDict()
            for ch, r in results:
                outs.setdefault(r, ch)
            if capped:
                viol.append(("C19/schedule-cap-hit", "%s %s" % (key, s), []))
            if len(outs) > 1:
                (r0, c0), (r1, c1) = list(outs.items())[:2]
                diff = _first_diff(r0, r1)
                viol.append(("C19/order-dependent:%s" % s, "script %s stage %s gives %d different observations over %d schedules; schedule %r vs %r: %s" % (key, s, len(outs), len(results), list(c0), list(c1), diff), list(c1)))
            res[gen + "-" + s] = list(outs)[0]
            if gen == "gen1" and s == "dumps" and len(outs) == 1:
                texts.append(("gen2", json.loads(list(outs)[0])["text"]))
    return {"key": key, "obs": res, "violations": viol, "schedules": nsched, "max_choice_points": maxpoints}


def _first_diff(a, b):
    i = next((k for k in range(min(len(a), len(b))) if a[k] != b[k]), min(len(a), len(b)))
    return "...%s | vs | ...%s" % (a[max(0, i - 60):i + 60], b[max(0, i - 60):i + 60])


WORKER = r"""
import sys, json, os, warnings
warnings.simplefilter('ignore')
sys.path.insert(0, %(verif)r)
from bbv.props import c19
import sympy
import blackbird          # imported while the process is still where it was started; the work happens elsewhere
M = c19.menu(%(d)r)
FM = c19.file_menu(%(d)r)
os.chdir(%(cwd)r)
setting = c19.process_setting(%(seed)d)
import numpy
if setting == "warnings-default":
    warnings.simplefilter('default')
elif setting == "numpy-legacy-print":
    numpy.set_printoptions(legacy='1.13')
elif setting:
    numpy.set_printoptions(precision=3, suppress=True, threshold=5, linewidth=30)
    warnings.simplefilter('always')
    sys.stderr = open(os.devnull, "w")
orders = {}
for g in c19.GROUPS:
    orders["str:" + ",".join(g)] = list(set(g))
    orders["sym:" + ",".join(g)] = [str(x) for x in set(sympy.symbols(g))]
out = {}
# every process goes through the menu in another rotation: what a script gives must not depend on what the process
# has loaded or serialised before it
items = list(M.items())
rot = %(seed)d %% len(items)
for k, text in items[rot:] + items[:rot]:
    try:
        out[k] = json.dumps(c19.pipeline(text), sort_keys=True)
    except Exception as e:
        out[k] = "EXC:" + type(e).__name__ + ":" + str(e)[:100]
for k, text in c19.env_menu().items():
    out["env:" + k] = json.dumps(c19.env_pipeline(text), sort_keys=True)
for k, path in FM.items():
    try:
        out["file:" + k] = json.dumps(c19.file_pipeline(path), sort_keys=True)
    except Exception as e:
        out["file:" + k] = "EXC:" + type(e).__name__ + ":" + str(e)[:100]
# a script given as a string names its include relative to where the process is at the time of the call
os.chdir(os.path.join(%(d)r, "proj"))
try:
    out["file:loads-relative-include-after-chdir"] = json.dumps(c19.loads_relative(), sort_keys=True)
except Exception as e:
    out["file:loads-relative-include-after-chdir"] = "EXC:" + type(e).__name__ + ":" + str(e)[:100]
print(json.dumps({"orders": orders, "obs": out}))
"""


def pyflags(seed):
    """'every process' includes interpreters started with optimisation flags (assert statements and docstrings are
    stripped under -O / -OO): two of every seven processes of the seed cover run that way"""
    return {3: ["-O"], 5: ["-OO"]}.get(seed % 7, [])


def _seed_run(task):
    d, seed, verif = task
    env = dict(os.environ)
    env["PYTHONHASHSEED"] = str(seed)
    if seed % 7 == 1:
        # 'every process' includes one started in the C locale without UTF-8 mode (a script file is UTF-8 whatever the locale)
        env.update(LC_ALL="C", LANG="C", PYTHONUTF8="0", PYTHONCOERCECLOCALE="0")
    cw = cwds(d)
    r = subprocess.run([sys.executable] + pyflags(seed) + ["-c", WORKER % {"verif": verif, "d": d, "cwd": cw[seed % len(cw)], "seed": seed}], capture_output=True, text=True, env=env)
    if r.returncode != 0:
        raise RuntimeError("seed worker %d failed: %s" % (seed, r.stderr[-400:]))
    return json.loads(r.stdout.strip().split("\n")[-1])


def run(ctx):
    import math
    d = os.path.join(ctx.scratch, "c19")
    write_files(d)
    write_file_menu(d)
    M = menu(d)
    FM = file_menu(d)
    Vs = common.Violations(keep=6)
    # (1) in-process schedule exploration
    res = pool.pmap(_explore_script, list(M.items()), chunk=1, timeout=1800)
    schedules = 0
    inproc = {}
    maxpts = 0
    for (k, _), r in zip(M.items(), res):
        if r == "TIMEOUT":
            Vs.add("C19/no-outcome", {"script": k}, "timeout")
            continue
        schedules += r["schedules"]
        maxpts = max(maxpts, r["max_choice_points"])
        inproc[k] = r["obs"]
        for key, det, ch in r["violations"]:
            Vs.add(key, {"script": k, "text": M[k], "schedule": ch}, det)
    # (2) real processes over a seed cover
    need = {}
    for g in GROUPS:
        for kind in ("str", "sym"):
            need[kind + ":" + ",".join(g)] = math.factorial(len(g))
    seen = collections.defaultdict(set)
    runs = {}
    seeds = []
    nxt = ctx.seed % 1000
    batch = 16
    limit = 64 if ctx.quick else 160
    while len(seeds) < limit:
        new = list(range(nxt, nxt + batch))
        nxt += batch
        for s, r in zip(new, pool.pmap(_seed_run, [(d, s, ctx.verif) for s in new], chunk=1)):
            runs[s] = r
            seeds.append(s)
            for k, o in r["orders"].items():
                seen[k].add(tuple(o))
        if all(len(seen[k]) >= need[k] for k in need):
            break
    cover_complete = all(len(seen[k]) >= need[k] for k in need)
    ref_seed = seeds[0]
    ncw = len(cwds(d))
    EM = env_menu()
    for k in list(M) + ["env:" + e for e in EM] + ["file:" + f for f in FM] + ["file:loads-relative-include-after-chdir"]:
        outs = collections.defaultdict(list)
        for s in seeds:
            outs[runs[s]["obs"][k]].append(s)
        if len(outs) > 1:
            (o0, s0), (o1, s1) = list(outs.items())[:2]
            # which of the two things that vary between the processes does the difference follow?
            by_cwd = all(len({runs[s]["obs"][k] for s in seeds if s % ncw == c}) <= 1 for c in range(ncw))
            by_locale = len({runs[s]["obs"][k] for s in seeds if s % 7 == 1}) <= 1 and len({runs[s]["obs"][k] for s in seeds if s % 7 != 1}) <= 1
            by_flag = all(len({runs[s]["obs"][k] for s in seeds if pyflags(s) == fl}) <= 1 for fl in ([], ["-O"], ["-OO"]))
            by_setting = all(len({runs[s]["obs"][k] for s in seeds if process_setting(s) == ps}) <= 1 for ps in ("", "warnings-default", "numpy-legacy-print", "numpy-short-print+warnings-always"))
            Vs.add("C19/working-directory-dependent" if by_cwd else "C19/process-setting-dependent" if by_setting and not by_flag else "C19/interpreter-flag-dependent" if by_flag else "C19/locale-dependent" if by_locale else "C19/hash-seed-dependent", {"script": k, "text": M.get(k, EM.get(k[4:], k)), "seeds": [s0[0], s1[0]]},
                   "script %s: processes with PYTHONHASHSEED=%d (cwd #%d) and %d (cwd #%d) give different observations: %s" % (k, s0[0], s0[0] % ncw, s1[0], s1[0] % ncw, _first_diff(o0, o1).replace(d, "<D>")))
        if k.startswith("env:"):
            continue
        if k.startswith("file:"):
            o = runs[ref_seed]["obs"][k]
            if o.startswith("EXC:"):
                Vs.add("C19/pipeline-raises", {"script": k, "text": k, "seeds": [ref_seed]}, o.replace(d, "<D>"))
            continue
        rep = runs[ref_seed]["obs"][k]
        if not rep.startswith("EXC:"):
            for what, ok in json.loads(rep).get("repeat", {}).items():
                if ok is False:
                    Vs.add("C19/not-repeatable-within-a-run:" + what, {"script": k, "text": M[k], "seeds": [ref_seed]}, "script %s: %s is False" % (k, what))
        # agreement with the in-process (default schedule) value, stage by stage
        o = runs[ref_seed]["obs"][k]
        if not o.startswith("EXC:") and k in inproc:
            po = json.loads(o)
            for st_ in STAGES:
                want = inproc[k].get("gen1-" + st_)
                if want is not None and json.dumps(po[st_], sort_keys=True) != want:
                    Vs.add("C19/process-vs-inprocess:" + st_, {"script": k, "text": M[k], "seeds": [ref_seed]}, "stage %s of %s differs between a fresh process and the explorer: %s" % (st_, k, _first_diff(json.dumps(po[st_], sort_keys=True), want)))
        elif o.startswith("EXC:"):
            Vs.add("C19/pipeline-raises", {"script": k, "text": M[k], "seeds": [ref_seed]}, o)
    cov = {"states": len(M) * (len(STAGES) + 2), "transitions": schedules + len(seeds) * len(M), "traces_validated_against_impl": schedules + len(seeds) * len(M),
           "samples": [M[k] for k in list(M)[:3]],
           "schedules_in_process": schedules, "max_choice_points_per_stage": maxpts, "scripts": len(M), "stages": STAGES + ["gen2-load", "gen2-dumps"],
           "hash_seeds_run": len(seeds), "seed_cover_complete": cover_complete, "working_directories": ncw, "process_settings": ["(none)", "warnings-default", "numpy-legacy-print", "numpy-short-print+warnings-always"], "process_setting_scripts": len(EM), "file_scripts_with_relative_includes": len(FM),
           "iteration_orders_realised": {k: "%d/%d" % (len(seen[k]), need[k]) for k in need},
           "evaluations": schedules + len(seeds) * len(M), "distinct_nontrivial": len(M),
           "rule": "every script x stage under every combination of symbol-set iteration orders (in process), and the whole menu in one fresh interpreter per PYTHONHASHSEED of a seed cover realising all k! orders of every name group as str and as Symbol; "
                   "the processes rotate over 5 working directories (two of them hold other files under the relative names the file scripts include) and each also repeats dumps / instantiation / load on the same objects; three of every seven processes first change a process-wide setting of the libraries below (warnings filter, NumPy print options), and %d scripts with out-of-domain function arguments, computed floats, overflowing values and long arrays are compared between all processes" % len(EM),
           "exhaustive": cover_complete}
    if not cover_complete:
        Vs.add("C19/seed-cover-incomplete", {"script": "-", "text": "", "seeds": seeds[:2]}, "seed cover incomplete after %d seeds: %r" % (len(seeds), cov["iteration_orders_realised"]))
    return {"coverage": cov, "violations": Vs.records(),
            "assumptions": ["observation = canonical content with register lists normalised (sorted registers, function re-paired) + serialised text", "CPython hashes small ints deterministically; sets of modes are not a hash-seed matter"]}


def replay(case):
    import tempfile
    import shutil
    d = tempfile.mkdtemp(prefix="bbv-c19r-")
    try:
        write_files(d)
        write_file_menu(d)
        M = menu(d)
        k = case["script"]
        if k not in M and not k.startswith("file:"):
            return False, "n/a"
        if case.get("seeds") and len(case["seeds"]) == 2:
            verif = os.path.dirname(os.path.dirname(os.path.dirname(os.path.abspath(__file__))))
            a = _seed_run((d, case["seeds"][0], verif))["obs"][k]
            b = _seed_run((d, case["seeds"][1], verif))["obs"][k]
            return a != b, ("differ: " + _first_diff(a, b).replace(d, "<TMP>")) if a != b else "same"
        if case.get("seeds") and len(case["seeds"]) == 1:
            verif = os.path.dirname(os.path.dirname(os.path.dirname(os.path.abspath(__file__))))
            a = _seed_run((d, case["seeds"][0], verif))["obs"][k]
            bad = a.startswith("EXC:") or any(v is False for v in json.loads(a).get("repeat", {}).values())
            return bad, a[:200].replace(d, "<TMP>") if a.startswith("EXC:") else repr(json.loads(a).get("repeat"))
        r = _explore_script((k, M[k]))
        return bool(r["violations"]), repr([v[:2] for v in r["violations"]])[:400].replace(d, "<TMP>")
    finally:
        shutil.rmtree(d, ignore_errors=True)
