"""C08  Measured-register arguments become transforms computing the written formula.

Every case (expression shape x ordered register choice x position x context) is loaded under EVERY
combination of iteration orders of the symbol sets that blackbird code iterates (schedule explorer,
bbv/core/sched.py).  Oracle per schedule: the argument is a RegRefTransform; sorted(regrefs) = the
registers written, each once; func applied to measurement values IN THE LISTED ORDER equals the reference
value of the written formula at 3 generic measurement vectors; plain arguments stay plain values.
"""
import ast as pyast
import collections
import itertools

from bbv.core import pool, sched, observe
from bbv.model import lang, denote
from bbv.model.lang import N, V, B, U, Q
from . import common

LEVEL = "model_checking"

# shape: (name, arity, builder(registers...) -> expression AST)
C = [N("2"), N("0.5"), U("-", N("3"))]
SHAPES = [
    ("q", 1, lambda a: a), ("c*q", 1, lambda a: B("*", C[0], a)), ("q+q", 2, lambda a, b: B("+", a, b)), ("q-q", 2, lambda a, b: B("-", a, b)),
    ("q*q", 2, lambda a, b: B("*", a, b)), ("q/q", 2, lambda a, b: B("/", a, b)), ("q**2", 1, lambda a: B("**", a, N("2"))),
    ("c*q*q+q", 3, lambda a, b, c: B("+", B("*", B("*", C[1], a), b), c)), ("q-q*q", 3, lambda a, b, c: B("-", a, B("*", b, c))),
    ("(q+q)/q", 3, lambda a, b, c: B("/", B("+", a, b), c)), ("x*q", 1, lambda a: B("*", V("x"), a)), ("1-q", 1, lambda a: B("-", N("1"), a)),
    ("q/c", 1, lambda a: B("/", a, C[2])), ("q-2*q", 2, lambda a, b: B("-", a, B("*", N("2"), b))), ("q/q-q", 3, lambda a, b, c: B("-", B("/", a, b), c)),
]
SHAPES += [("q*q-q (repeated)", 2, lambda a, b: B("-", B("*", a, a), b)), ("q+c", 1, lambda a: B("+", a, N("1"))), ("c-q/q", 2, lambda a, b: B("-", N("0.5"), B("/", a, b)))]
SHAPES += [("tiny*q+q", 2, lambda a, b: B("+", B("*", N("1e-13"), a), b)), ("digits*q", 1, lambda a: B("*", N("1.23456789e-7"), a)),
           ("huge*q-q", 2, lambda a, b: B("-", B("*", N("1e15"), a), b)), ("q/big", 1, lambda a: B("/", a, N("3e12")))]
# a factored difference raised to a power, scaled, evaluated near its root (the first measurement vector puts the first
# register at 1.3): the written form is well conditioned there, its expanded polynomial is not
SHAPES += [("(c*(q-a))**5", 1, lambda a: B("**", B("*", B("-", a, N("1.3001")), N("1000")), N("5"))), ("((q-a)*c)**7-q", 2, lambda a, b: B("-", B("**", B("*", B("-", a, N("1.29")), N("50")), N("7")), b))]
# declared variables whose names contain something that looks like a register
SHAPES += [("freq1*q", 1, lambda a: B("*", V("freq1"), a)), ("q/sq2-q", 2, lambda a, b: B("-", B("/", a, V("sq2")), b)), ("q1a+q*q0x", 1, lambda a: B("+", V("q1a"), B("*", a, V("q0x")))),
           ("q-aq10", 1, lambda a: B("-", a, V("aq10")))]
SHAPES_T = [("q*q*q-q", 4, lambda a, b, c, d: B("-", B("*", B("*", a, b), c), d)), ("q**2-q/q", 3, lambda a, b, c: B("-", B("**", a, N("2")), B("/", b, c)))]


LIGHT = {"(c*(q-a))**5", "((q-a)*c)**7-q", "freq1*q", "q/sq2-q", "q1a+q*q0x", "q-aq10", "tiny*q+q", "digits*q", "huge*q-q", "q/big", "q*q-q (repeated)", "q+c", "c-q/q"}


def make_script(expr, pos, context):
    x = ("decl", "float", "x", N("2.5"))
    if pos == "pos":
        s = ("stmt", "G", [N("1"), expr, lang.S("t")], [], [N("0")], "none")
    elif pos == "kw":
        s = ("stmt", "G", [N("0.5")], [("k", expr), ("j", N("7"))], [N("0"), N("1")], "sq")
    elif pos == "params":
        # template parameters before, between and after the register arguments of one statement, in both containers
        s = ("stmt", "G", [lang.P("alpha"), expr, B("*", N("2"), lang.P("beta")), B("-", Q(7), N("1"))], [("phi", B("+", lang.P("alpha"), N("1"))), ("select", expr), ("z", lang.P("gamma")), ("w", B("/", Q(5), N("4")))], [N("0")], "none")
    elif pos == "two-sets":
        # several register arguments with DIFFERENT register sets in one statement: each transform lists its own
        other = B("/", Q(7), B("+", Q(5), N("4")))
        s = ("stmt", "G", [expr, N("0.25"), B("-", Q(7), N("1"))], [("k", other), ("j", expr)], [N("1")], "none")
    else:
        s = ("stmt", "G", [expr, B("*", N("2"), expr)], [("k", expr)], [N("2")], "none")
    used = lang.names_used(expr)
    x = [x] + [("decl", "float", nm, N(val)) for nm, val in (("freq1", "0.75"), ("sq2", "1.5"), ("q1a", "2.25"), ("q0x", "0.25"), ("aq10", "3.5")) if nm in used]
    if context == "plain":
        items = x + [s]
    elif context == "after-select":
        # the registers were measured with post-selection earlier on (a later argument still depends on the register)
        items = x + [("stmt", "MeasureHomodyne", [], [("phi", N("0")), ("select", N("0.3"))], [N("0")], "none"), ("stmt", "MeasureFock", [], [("select", lang.L(N("1"), N("2")))], [N("1"), N("3")], "sq"),
                     s, ("stmt", "MeasureX", None, [], [N("0")], "none"), s]
    elif context == "after-measure":
        items = x + [("stmt", "MeasureX", None, [], [N("0")], "none"), s, ("stmt", "H", [N("3")], [], [N("1")], "none")]
    else:   # loop: the same statement node is replayed with a coefficient taken from the loop variable
        op, args, kwargs = s[1], s[2], s[3]
        scale = lambda e: B("+", B("*", V("m"), e), V("m")) if e[0] in ("bin", "reg") else e
        s2 = ("stmt", op, [scale(a) for a in args], [(k, scale(v)) for k, v in kwargs], [V("m")], "none")
        items = x + [("for", "int", "m", ("range", 1, 4, None), [s2])]
    return dict(name="r", version="1.0", items=items)


def observe_case(sc_text, sc):
    """one execution: load and compare with the model; returns (verdict, listing orders seen)"""
    m = denote.Model().run(sc)
    st, p = common.loads(sc_text)
    if st == "exc":
        return ("load-raises:" + type(p).__name__, common.exc_sig(p)), ()
    errs = denote.compare(m, p)
    orders = []
    for o in p.operations:
        for v in list(o.get("args", [])) + list(o.get("kwargs", {}).values()):
            if type(v).__name__ == "RegRefTransform":
                orders.append(tuple(v.regrefs))
                if len(set(v.regrefs)) != len(v.regrefs):
                    errs.append("register-listed-twice %r" % (v.regrefs,))
    # arguments without registers stay plain values: covered by compare (kind-aware) on the plain arguments
    if errs:
        return ("differs", "; ".join(errs)[:300]), tuple(orders)
    return None, tuple(orders)


def _case(c):
    sched.install()
    shape_i, regs, pos, context, thorough = c
    shapes = SHAPES + SHAPES_T
    name, k, f = shapes[shape_i]
    expr = f(*[Q(r) for r in regs])
    sc = make_script(expr, pos, context)
    text = lang.render(sc)
    results, capped = sched.explore(lambda: observe_case(text, sc), cap=3000)
    bad = [(ch, r) for ch, (r, _) in results if r is not None]
    orders = set()
    for _, (_, o) in results:
        orders.update(o)
    out = {"schedules": len(results), "capped": capped, "orders": len(orders), "choice_points": max((len(ch) for ch, _ in results), default=0)}
    if bad:
        ch, r = bad[0]
        out["violation"] = ("C08/%s:%s" % (r[0], name if len(regs) > 1 else "single-register"), "schedule %r: %s ;; %s" % (list(ch), r[1], text.replace("\n", " / ")), list(ch))
    return out


def build(ctx):
    regs = [0, 1, 3, 10] if ctx.quick else [0, 1, 3, 10, "007"]
    spelt = ["007", "01", 10]      # registers written with leading zeros (q007 is register 7): the light shapes use these in the quick tier
    shapes = SHAPES + (SHAPES_T if not ctx.quick else [])
    cases = []
    for si, (name, k, f) in enumerate(shapes):
        perms = list(itertools.permutations(regs, k))
        if ctx.quick and k == 3:
            perms = perms        # all 24
        light = ctx.quick and name in LIGHT      # coefficient / repetition shapes: the register choice is not what they vary
        if light:
            perms = perms[:3]
            if ctx.quick:
                perms = perms[:2] + list(itertools.permutations(spelt, k))[:2]
        for rs in perms:
            for pos in ("pos", "kw") + (("both",) if (not ctx.quick or k <= 2) and not light else ()) + (("two-sets",) if (k <= 2 and not light and (not ctx.quick or rs == tuple(sorted(rs, key=str)))) else ()) + (("params",) if (not light and (not ctx.quick or rs == tuple(sorted(rs, key=str)))) else ()):
                for context in ("plain", "after-measure", "after-select", "loop") if not light else ("plain", "loop"):
                    if pos == "params" and context != "plain":
                        continue
                    if context == "after-measure" and pos != "pos":
                        continue
                    if context == "after-select" and (pos != "kw" or (ctx.quick and rs != tuple(sorted(rs, key=str)))):
                        continue
                    if ctx.quick and pos == "two-sets" and context == "loop":
                        continue        # (5 transforms x 3 iterations: thorough tier)
                    if ctx.quick and context == "loop" and k == 3 and rs != tuple(sorted(rs, key=str)):
                        continue
                    cases.append((si, tuple(rs), pos, context, not ctx.quick))
    return cases


def run(ctx):
    cases = common.shard(build(ctx), ctx.seed)
    res = pool.pmap(_case, cases, chunk=4, timeout=1800)
    Vs = common.Violations(keep=6)
    schedules = 0
    capped = 0
    multi = 0
    order_hist = collections.Counter()
    for c, r in zip(cases, res):
        if r == "TIMEOUT":
            Vs.add("C08/no-outcome", {"case": repr(c)}, "timeout")
            continue
        schedules += r["schedules"]
        capped += 1 if r["capped"] else 0
        if r["schedules"] > 1:
            multi += 1
        order_hist[r["orders"]] += 1
        if "violation" in r:
            k, d, ch = r["violation"]
            Vs.add(k, {"case": repr(c), "schedule": ch}, d)
    # explorer determinism: one recorded schedule replayed twice
    sample_c = cases[len(cases) // 2]
    a = _case(sample_c)
    b = _case(sample_c)
    if a != b:
        raise RuntimeError("harness: schedule exploration is not deterministic")
    cov = {"states": len(cases), "transitions": schedules, "traces_validated_against_impl": schedules,
           "samples": [repr(c) for c in common.sample(cases, 5)],
           "evaluations": schedules, "distinct_nontrivial": multi,
           "rule": "cases = expression shape x every ordered choice of distinct registers x {positional, keyword, both, next to arguments over other registers} x {plain, after a measurement, after post-selected measurements of the same modes, inside a for-loop with the loop variable as coefficient}; "
                   "for every case all combinations of iteration orders at every symbol-set iteration made from blackbird code (k! per site) are executed (`transitions` = complete schedules); "
                   "non-trivial = cases with more than one schedule; `listing_orders_seen` = histogram of how many distinct register listing orders were observed per case",
           "cases": len(cases), "cases_with_gt1_schedule": multi, "capped_cases": capped, "listing_orders_seen": dict(order_hist), "exhaustive": capped == 0}
    return {"coverage": cov, "violations": Vs.records(),
            "assumptions": ["set-iteration sites outside SymPy's free_symbols (e.g. sets of ints) are deterministic in CPython and are not choice points", "measurement vectors: 3 generic points with pairwise different entries"]}


def replay(case):
    c = pyast.literal_eval(case["case"])
    r = _case(c)
    return ("violation" in r), repr(r.get("violation"))[:400]
