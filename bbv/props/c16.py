"""C16  The dependency graph is an order-respecting DAG of the operations.

ALL programs of n operations over modes {0,1,2}: each operation = non-empty mode subset (ordered variants
for 2 modes) x register dependencies in {none, {q0}, {q1}, {q0,q2}} placed positionally or as keyword x
with / without an `args` key.  Oracle: nodes = {0..n-1} carrying name/args/kwargs/modes; every edge i->j has
i<j; has_path(i,j) <=> j reachable from i in the reference relation (share a wire = mode or measured
register, closed under increasing chains); every topological order keeps the program order on every mode.
"""
import collections
import itertools

from bbv.core import pool
from . import common

LEVEL = "exploration"
MODESETS = [(0,), (1,), (2,), (0, 1), (1, 2), (2, 0), (1, 0), (0, 1, 2), (2, 0, 1)]
DEPS = [(), (0,), (1,), (0, 2)]


def variants(full=True):
    out = []
    for m in MODESETS if full else MODESETS[:7]:
        out.append((m, "noargs", ()))
        out.append((m, "empty", ()))
        for d in DEPS[1:]:
            out.append((m, "pos", d))
            out.append((m, "kw", d))
        # two register-dependent arguments in the same group (every one of them contributes wires)
        out.append((m, "pos2", (0, 1)))
        out.append((m, "kw2", (1, 2)))
        if m in ((0,), (0, 1), (2, 0, 1)):
            # keyword arguments called like the fields a node carries
            out.append((m, "kwfields", ()))
            out.append((m, "kwfields-reg", (1,)))
    return out


_RR = {}


def rr(d):
    """transforms are built once per worker and shared between the enumerated programs (building one costs a
    lambdify); replay() starts from an empty table, and the call-sequence family uses the parser's own objects"""
    import sympy as sym
    from blackbird import RegRefTransform
    if d not in _RR:
        _RR[d] = RegRefTransform(sum((k + 2) * sym.Symbol("q%d" % i) for k, i in enumerate(d)))
    return _RR[d]


def mk(seq):
    from blackbird import BlackbirdProgram
    p = BlackbirdProgram()
    for i, (m, kind, d) in enumerate(seq):
        op = {"op": "G%d" % (i % 2), "modes": list(m)}
        if kind != "noargs":
            op["args"], op["kwargs"] = op_args(kind, d)
        p.operations.append(op)
    return p


def alphabet(full, reg):
    """reg: True = everything; False = register-free; 'bare' = register-free without the empty-brackets variant"""
    V = variants(full)
    if reg is True:
        return V
    V = [v for v in V if not v[2]]
    if reg == "bare":
        V = [v for v in V if v[1] == "noargs"]
    return V


def op_args(kind, d):
    if kind == "pos":
        return [0.5, rr(d)], {}
    if kind == "kw":
        return [], {"k": rr(d), "j": 1}
    if kind == "pos2":
        return [rr(d[:1]), 2, rr(d[1:])], {}
    if kind == "kw2":
        return [], {"a": rr(d[:1]), "b": rr(d[1:])}
    if kind == "kwfields":
        return [0.5], {"modes": [7, 8], "args": 2, "kwargs": 0.1, "op": "x"}
    if kind == "kwfields-reg":
        return [], {"modes": rr(d), "args": [1], "kwargs": 3}
    return [], {}


def wires(v):
    return set(v[0]) | set(v[2])


def reference(seq):
    N = len(seq)
    R = [[False] * N for _ in range(N)]
    for j in range(N):
        for i in range(j):
            if wires(seq[i]) & wires(seq[j]):
                R[i][j] = True
    for k in range(N):
        for i in range(N):
            for j in range(N):
                if R[i][k] and R[k][j]:
                    R[i][j] = True
    return R


def check_graph(seq, g, topo=True):
    import networkx as nx
    N = len(seq)
    if sorted(g.nodes()) != list(range(N)):
        return ("nodes", "nodes %r for %d operations" % (sorted(g.nodes()), N))
    for i, j in g.edges():
        if not i < j:
            return ("edge-direction", "edge %d->%d" % (i, j))
    for i in range(N):
        nd = g.nodes[i]
        if nd.get("name") != "G%d" % (i % 2) or tuple(nd.get("modes", ())) != tuple(seq[i][0]):
            return ("node-attributes", "node %d: %r" % (i, dict(nd)))
        kind, d = seq[i][1], seq[i][2]
        want_args, want_kw = op_args(kind, d)
        from bbv.core import observe
        if observe.canon(list(nd.get("args", []))) != observe.canon(want_args) or observe.canon(dict(nd.get("kwargs", {}))) != observe.canon(want_kw):
            return ("node-arguments", "node %d args %r kwargs %r" % (i, nd.get("args"), nd.get("kwargs")))
    R = reference(seq)
    for i in range(N):
        for j in range(N):
            if i != j and nx.has_path(g, i, j) != R[i][j]:
                kind = "register" if any(seq[x][2] for x in (i, j)) else "mode"
                return ("reachability:%s:%s" % ("missing" if R[i][j] else "spurious", kind), "has_path(%d,%d)=%r, reference %r; edges %r" % (i, j, not R[i][j], R[i][j], sorted(g.edges())))
    if topo and N <= 5:
        for order in nx.all_topological_sorts(g):
            pos = {v: k for k, v in enumerate(order)}
            for q in (0, 1, 2):
                on = [i for i in range(N) if q in seq[i][0]]
                if any(pos[a] > pos[b] for a, b in zip(on, on[1:])):
                    return ("topological-order", "order %r breaks program order on mode %d" % (order, q))
    return None


def _chunk(task):
    from blackbird.utils import to_DiGraph
    first, N, full, reg = task
    V = alphabet(full, reg)
    n = 0
    viol = common.Violations(keep=2)
    nontrivial = 0
    for rest in itertools.product(V, repeat=N - 1):
        seq = (first,) + rest
        n += 1
        try:
            g = to_DiGraph(mk(seq))
        except Exception as e:  # noqa
            viol.add("C16/to_DiGraph-raises:" + type(e).__name__, {"seq": repr(seq)}, common.exc_sig(e))
            continue
        try:
            r = check_graph(seq, g)
        except (TypeError, ValueError, AttributeError, KeyError, IndexError) as e:
            r = ("node-attributes-unreadable", "the graph's node data cannot be read as name/args/kwargs/modes: " + common.exc_sig(e))
        if any(wires(seq[i]) & wires(seq[j]) for i in range(N) for j in range(i)):
            nontrivial += 1
        if r is not None:
            viol.add("C16/" + r[0], {"seq": repr(seq)}, r[1])
    return n, nontrivial, viol.records()


def loaded_cases():
    """n <= 2 programs obtained by loading a script, so that RegRefTransforms are the parser's own"""
    texts = []
    exprs = ["", "(q0)", "(2*q1)", "(q0-q2)", "(k=q0)", "(1, k=q0+q2)", "()"]
    for e1, e2 in itertools.product(exprs, repeat=2):
        for m1, m2 in itertools.product(["0", "[0, 1]", "2"], ["1", "[2, 0]", "0"]):
            texts.append("name g\nversion 1.0\n\nG0%s | %s\nG1%s | %s\n" % (e1, m1, e2, m2))
    # keyword arguments called like the fields a node carries
    for e1, e2 in itertools.product(["(0.7, modes=[1, 0])", "(args=2, kwargs=0.1)", "(q0, kwargs=q1)", "(modes=q0)"], ["", "(q0)", "(k=q1)"]):
        for m1, m2 in (("0", "1"), ("[0, 1]", "0"), ("2", "[2, 0]")):
            texts.append("name g\nversion 1.0\n\nG0%s | %s\nG1%s | %s\n" % (e1, m1, e2, m2))
    # registers with two digits, on programs over modes 0..12 (q12 must not be taken for q1, nor q10 for q1/q0)
    exprs2 = ["(q12)", "(q10-q1)", "(k=q12*2)", "(q1)", "(q2, k=q10)", ""]
    for e1, e2, e3 in itertools.product(exprs2, repeat=3):
        for ms in (("12", "1", "10"), ("[1, 2]", "12", "[10, 0]"), ("10", "[12, 10]", "2")):
            texts.append("name g\nversion 1.0\n\nG0%s | %s\nG1%s | %s\nG0%s | %s\n" % (e1, ms[0], e2, ms[1], e3, ms[2]))
    return texts


def _loaded(text):
    import re
    from blackbird.utils import to_DiGraph
    st, p = common.loads(text)
    if st == "exc":
        return ("C16/script-does-not-load", common.exc_sig(p))
    # the reference wires come from the script TEXT (registers as written), not from the parsed transforms
    stmts = [l for l in text.split("\n")[3:] if l.strip()]
    seq = []
    for o, line in zip(p.operations, stmts):
        regs = {int(x) for x in re.findall(r"\bq(\d+)\b", line.split("|")[0])}
        seq.append((tuple(int(m) for m in o["modes"]), "x", tuple(sorted(regs))))
    if len(stmts) != len(p.operations):
        return ("C16/loaded:operation-count", "%d statements, %d operations" % (len(stmts), len(p.operations)))
    import networkx as nx
    g = to_DiGraph(p)
    N = len(seq)
    if sorted(g.nodes()) != list(range(N)) or any(not i < j for i, j in g.edges()):
        return ("C16/loaded:nodes-or-direction", "%r %r" % (sorted(g.nodes()), sorted(g.edges())))
    R = reference(seq)
    for i in range(N):
        for j in range(N):
            if i != j and nx.has_path(g, i, j) != R[i][j]:
                return ("C16/loaded:reachability", "has_path(%d,%d) != reference %r for %s" % (i, j, R[i][j], text.replace("\n", " / ")))
    return None


# ---------------------------------------------------------------------------------------------------------
# call sequences: the graph of a program is a function of that program as it is NOW - whatever graphs were built
# before, of it or of the template it was made from, and whatever was done to it in between

SEQ_SCRIPTS = collections.OrderedDict([
    ("template-regs", "name s\nversion 1.0\n\nMeasureX | 0\nDgate(q0, {phi}) | 1\nBSgate({phi}, 0.1) | [1, 2]\nSgate({r}) | 0\nVac | 2\n"),
    ("template-kw", "name s\nversion 1.0\n\nG(k={a}) | 0\nH({a}*2, l=[{b}, 1]) | [0, 1]\nK | 1\nG(q1, k={b}) | 2\n"),
    ("plain", "name s\nversion 1.0\n\nG(1) | 0\nH | [0, 1]\nMeasureX | 1\nK(2*q1) | 2\nG | 0\n"),
])
SEQ_VALS = [{"phi": -0.75, "r": 0.5, "a": 1.5, "b": -2.0}, {"phi": 0.25, "r": 3.0, "a": -0.5, "b": 4.0}]
SEQ_STEPS = ["graphT", "matchTI", "inst1", "inst2", "graphI", "dumpsT", "append", "remodes", "graphT2"]


def graph_vs_program(g, P):
    """node i carries operation i of P as it is now; edges forward; reachability = reference on P's current wires"""
    import networkx as nx
    from bbv.core import observe
    ops = P.operations
    N = len(ops)
    if sorted(g.nodes()) != list(range(N)):
        return ("nodes", "nodes %r for %d operations" % (sorted(g.nodes()), N))
    seq = []
    for i, o in enumerate(ops):
        nd = g.nodes[i]
        want = (o["op"], observe.canon(list(o.get("args", []))), observe.canon(dict(o.get("kwargs", {}))), tuple(o["modes"]))
        try:
            got = (nd.get("name"), observe.canon(list(nd.get("args", []))), observe.canon(dict(nd.get("kwargs", {}))), tuple(nd.get("modes", ())))
        except Exception as e:  # noqa
            return ("node-attributes", "node %d unreadable: %s; raw %r" % (i, common.exc_sig(e), dict(nd)))
        if got != want:
            return ("node-attributes", "node %d carries %r, operation %d is %r" % (i, got, i, want))
        regs = set()
        for v in list(o.get("args", [])) + list(o.get("kwargs", {}).values()):
            for x in (v if isinstance(v, list) else [v]):
                if type(x).__name__ == "RegRefTransform":
                    regs |= set(int(r) for r in x.regrefs)
        seq.append((tuple(o["modes"]), "x", tuple(sorted(regs))))
    if any(not i < j for i, j in g.edges()):
        return ("edge-direction", repr(sorted(g.edges())))
    R = reference(seq)
    for i in range(N):
        for j in range(N):
            if i != j and nx.has_path(g, i, j) != R[i][j]:
                return ("reachability", "has_path(%d,%d) != reference %r; edges %r" % (i, j, R[i][j], sorted(g.edges())))
    return None


@common.guarded("C16")
def _sequence(task):
    from blackbird.utils import to_DiGraph, match_template
    key, steps = task
    st, T = common.loads(SEQ_SCRIPTS[key])
    if st == "exc":
        return ("C16/sequence:script-does-not-load", common.exc_sig(T))
    insts = []
    tmpl = T.is_template()
    for k, step in enumerate(steps):
        if step in ("graphT", "graphT2"):
            g = to_DiGraph(T)
            r = graph_vs_program(g, T)
            if r:
                return ("C16/sequence:%s" % r[0], "after %r on %s: graph of the program: %s" % (list(steps[:k + 1]), key, r[1]))
        elif step in ("inst1", "inst2"):
            if tmpl:
                v = SEQ_VALS[0 if step == "inst1" else 1]
                insts.append(T(**{n: v[n] for n in T.parameters}))
        elif step == "graphI":
            for I in insts:
                r = graph_vs_program(to_DiGraph(I), I)
                if r:
                    return ("C16/sequence:%s" % r[0], "after %r on %s: graph of an instance: %s" % (list(steps[:k + 1]), key, r[1]))
        elif step == "matchTI":
            if tmpl and insts:
                try:
                    match_template(T, insts[-1])
                except Exception:  # noqa  (C17's subject)
                    pass
        elif step == "dumpsT":
            common.dumps(T)
        elif step == "append":
            for P in [T] + insts:
                P.operations.append({"op": "New", "args": [7], "kwargs": {}, "modes": [0, 2]})
        elif step == "remodes":
            for P in [T] + insts:
                P.operations[0]["modes"] = [2]
    # finally every object once more
    for P in [T] + insts:
        r = graph_vs_program(to_DiGraph(P), P)
        if r:
            return ("C16/sequence:%s" % r[0], "after %r on %s (final): %s" % (list(steps), key, r[1]))
    return None


def sequence_tasks(depth):
    out = []
    for key in SEQ_SCRIPTS:
        for n in range(1, depth + 1):
            for steps in itertools.product(SEQ_STEPS, repeat=n):
                out.append((key, steps))
    return out


def _long_chunk(task):
    """long programs: N operations, a chosen few of them on the watched wire (mode 0 or register q0), every other
    operation on a wire of its own - ALL placements of 2 (and 3, for N <= 17) operations on the watched wire"""
    from blackbird.utils import to_DiGraph
    N, wire, first = task
    viol = common.Violations(keep=2)
    n = 0
    rest = range(first + 1, N)
    places = [(first, j) for j in rest] + ([(first, j, k) for j in rest for k in range(j + 1, N)] if N <= 17 else [])
    for pl in places:
        seq = []
        for i in range(N):
            if i in pl:
                if wire == "mode":
                    seq.append(((0,), "noargs", ()))
                elif i == pl[0]:
                    seq.append(((0,), "noargs", ()))            # the measurement of mode 0 ...
                else:
                    seq.append(((i + 1,), "pos" if i % 2 else "kw", (0,)))     # ... and operations elsewhere that read q0
            else:
                seq.append(((i + 1,), "noargs" if i % 3 else "empty", ()))
        n += 1
        try:
            g = to_DiGraph(mk(seq))
            r = check_graph(seq, g, topo=False)
        except Exception as e:  # noqa
            r = ("to_DiGraph-raises:" + type(e).__name__, common.exc_sig(e))
        if r is not None:
            viol.add("C16/long-program:" + r[0], {"seq": repr(tuple(seq))}, "N=%d placement %r on %s: %s" % (N, pl, wire, r[1]))
    return n, viol.records()


def run(ctx):
    Vs = common.Violations(keep=5)
    total = nontrivial = 0
    bounds = []
    plan = [(1, True, True), (2, True, True), (3, True, True)] if ctx.quick else [(1, True, True), (2, True, True), (3, True, True), (4, False, True)]
    plan += [(4, True, False), (5, True, "bare")] if ctx.quick else [(5, True, False), (6, True, "bare")]
    samples = []
    for N, full, reg in plan:
        V = alphabet(full, reg)
        tasks = [(v, N, full, reg) for v in V]
        res = pool.pmap(_chunk, tasks, chunk=1, timeout=7200)
        n0 = total
        for r in res:
            if r == "TIMEOUT":
                Vs.add("C16/no-outcome", {"seq": "chunk"}, "timeout")
                continue
            n, nt, vr = r
            total += n
            nontrivial += nt
            Vs.merge(vr)
        bounds.append({"operations": N, "operation_alphabet": len(V), "with_register_dependencies": reg, "programs": total - n0})
        samples.append(repr((V[len(V) // 2],) * min(N, 2)))
    texts = loaded_cases()
    for t, r in zip(texts, pool.pmap(_loaded, texts, chunk=20)):
        if r is not None and r != "TIMEOUT":
            Vs.add(r[0], {"text": t}, r[1])
    ltasks = [(N, wire, first) for N in ((9, 12, 17, 33) if ctx.quick else (9, 10, 12, 16, 17, 24, 33, 40, 65)) for wire in ("mode", "register") for first in range(N - 1)]
    nlong = 0
    for r in pool.pmap(_long_chunk, ltasks, chunk=2, timeout=3600):
        if r == "TIMEOUT":
            continue
        nlong += r[0]
        Vs.merge(r[1])
    total += nlong
    bounds.append({"family": "long programs: N operations with ALL placements of 2 (N <= 17: also 3) operations on one watched wire (a mode / a measured register), every other operation on a wire of its own", "N": sorted({t[0] for t in ltasks}), "programs": nlong})
    seqs = sequence_tasks(3 if ctx.quick else 4)
    for tk, r in zip(seqs, pool.pmap(_sequence, seqs, chunk=40)):
        if r is not None and r != "TIMEOUT":
            Vs.add(r[0], {"sequence": repr(tk)}, r[1])
    bounds.append({"family": "call sequences: ALL sequences of <= %d steps over %r on %d scripts; after every graph step, and at the end for the program and every instance, the graph must carry the object's current operations and the reference reachability" % (3 if ctx.quick else 4, SEQ_STEPS, len(SEQ_SCRIPTS)), "sequences": len(seqs)})
    cov = {"evaluations": total + len(texts) + len(seqs), "distinct_nontrivial": nontrivial,
           "rule": "ALL sequences of n operations over the operation alphabet (mode subsets of {0,1,2} incl. ordered 2- and 3-mode variants x register dependencies {none,{q0},{q1},{q0,q2}} positional or keyword x with/without args key) "
                   "for the n listed in `bounds`; for n<=5 every topological order of the graph is enumerated; plus %d two-statement scripts loaded from text. non-trivial = >= 2 operations sharing a wire; distinct by construction" % len(texts),
           "samples": samples, "exhaustive": True, "bounds": bounds, "loaded_scripts": len(texts)}
    return {"coverage": cov, "violations": Vs.records(), "assumptions": ["wires = modes + measured registers of RegRefTransform arguments (positional and keyword)"]}


def replay(case):
    import ast
    from blackbird.utils import to_DiGraph
    if "text" in case:
        r = _loaded(case["text"])
        return (r is not None), repr(r)
    if "sequence" in case:
        r = _sequence(ast.literal_eval(case["sequence"]))
        return (r is not None), repr(r)
    if case["seq"] == "chunk":
        return False, "n/a"
    _RR.clear()
    seq = ast.literal_eval(case["seq"])
    try:
        g = to_DiGraph(mk(seq))
    except Exception as e:  # noqa
        return True, common.exc_sig(e)
    try:
        r = check_graph(seq, g)
    except (TypeError, ValueError, AttributeError, KeyError, IndexError) as e:
        r = ("node-attributes-unreadable", common.exc_sig(e))
    return (r is not None), repr(r)
