"""C02  Loading a script yields exactly the program the script denotes.

Exhaustive breadth-first enumeration of script prefixes (a state = list of top-level items so far,
an event = one more item from the menu valid in the current environment).  Every state is rendered,
loaded by the implementation and compared with the reference denotation.
"""
import ast as pyast
import collections

from bbv.core import pool, observe
from bbv.model import lang, denote, alphabet as A
from bbv.model.lang import N, V, B, U
from . import common

LEVEL = "exploration"


def events(env, tier):
    """menu of next items given the set of declared names"""
    ev = [d for d in A.DECLS if d[2] not in env]
    # re-declaration of an existing scalar (the later declaration wins, and it may use the old value)
    if "n" in env:
        ev.append(("decl", "int", "n", B("+", V("n"), N("4"))))
    if "x" in env:
        ev.append(("decl", "float", "x", N("7.5")))
    for style, modes in A.MODE_FORMS:
        if all(A.needs(m) <= env for m in modes):
            ev.append(("stmt", "G", None, [], modes, style))
    ev.append(("stmt", "MeasureX", None, [], [N("0")], "none"))
    ev.append(("stmt", "Measure", None, [], [N("1"), N("0")], "sq"))
    ev.append(("stmt", "MeasureFock", [], [("select", lang.L(N("0"), N("1")))], [N("0"), N("1")], "sq"))
    ev.append(("stmt", "G", [], [], [N("0")], "none"))
    shapes = [a for _, a in A.ARG_SHAPES if A.needs(a) <= env]
    for a in shapes:
        ev.append(("stmt", "G", [a], [], [N("0")], "none"))
    for a in shapes:
        ev.append(("stmt", "H", [], [("k", a)], [N("1"), N("0")], "sq"))
    two = shapes if tier == "thorough" else shapes[::3]
    for i, a in enumerate(two):
        b = two[(i + 1) % len(two)]
        ev.append(("stmt", "H2", [a, b], [("k", b), ("l", a)], [N("1")], "rd"))
    for k in A.KW_LISTS + (A.KW_LISTS_T if tier == "thorough" else []):
        if A.needs(k) <= env:
            ev.append(("stmt", "K", [], [("k", k), ("l", N("2"))], [N("0")], "none"))
            ev.append(("stmt", "K", [N("1")], [("k", k)], [N("0")], "none"))
    kl = [k for k in A.KW_LISTS if A.needs(k) <= env]
    for i, k1 in enumerate(kl[:5]):
        k2 = kl[(i + 1) % len(kl)]
        ev.append(("stmt", "K2", [], [("k", k1), ("m", k2), ("z", k1)], [N("0")], "none"))
    ev.append(("for", "int", "i", ("range", 0, 2, None), [("stmt", "L", [V("i")], [], [V("i"), B("+", V("i"), N("1"))], "sq")]))
    ev.append(("for", "float", "t", ("vals", [N("0.5"), N("2")], "sq"), [("stmt", "L", [], [("k", V("t"))], [N("0")], "none"), ("stmt", "M", None, [], [N("1")], "none")]))
    ev.append(("blank",))
    return ev


@common.guarded("C02")
def check_script(sc):
    """returns None (agree), 'ood', or (key, detail)"""
    text = lang.render(sc)
    try:
        m = denote.Model().run(sc)
    except denote.OutOfDomain:
        return "ood"
    st, p = common.loads(text)
    if st == "exc":
        return ("C02/load-raises:" + type(p).__name__, common.exc_sig(p))
    errs = denote.compare(m, p)
    if not errs:
        return None
    # classifier: is the only difference that keywords whose value is the empty list are missing?
    dropped = False
    for o in m.ops:
        if o["kwargs"]:
            kept = [(k, v) for k, v in o["kwargs"] if v != []]
            if len(kept) != len(o["kwargs"]):
                dropped = True
                o["kwargs"] = kept
    for tag in (m.target, m.type):
        kept = [(k, v) for k, v in tag["options"] if v != []]
        if len(kept) != len(tag["options"]):
            dropped = True
            tag["options"] = kept
    if dropped and not denote.compare(m, p):
        return ("C02/empty-list-keyword", "; ".join(errs))
    return ("C02/mismatch:" + "|".join(sorted(set(e.split(" ")[0].rstrip("0123456789") if not e.startswith("op") else e.split("-", 1)[1] for e in errs))), "; ".join(errs))


CORE_ARGS = 12


def core_events(env):
    """reduced menu used for the deepest level of the quick tier"""
    full = events(env, "quick")
    out = []
    seen_g = seen_h = 0
    for ev in full:
        if ev[0] in ("decl", "arr"):
            if ev[2] in ("n", "x", "A"):
                out.append(ev)
        elif ev[0] == "stmt" and ev[1] == "G" and ev[2] is None:
            if ev[5] in ("none", "sq", "rd") and len(out) < 40 and ev[4][0][0] == "num":
                out.append(ev)
        elif ev[0] == "stmt" and ev[1] == "G" and ev[2]:
            seen_g += 1
            if seen_g % 4 == 1:
                out.append(ev)
        elif ev[0] == "stmt" and ev[1] == "H":
            seen_h += 1
            if seen_h % 9 == 2:
                out.append(ev)
        elif ev[0] == "stmt" and ev[1] == "K" and ev[2] == []:
            if ev[3][0][1][1] and len(ev[3][0][1][1]) == 2 and ev[3][0][1][1][0][0] in ("num", "str"):
                out.append(ev)
        elif ev[0] == "stmt" and ev[1] in ("MeasureX", "MeasureFock"):
            out.append(ev)
        elif ev[0] in ("for", "blank"):
            out.append(ev)
    return out


def medium_events(env, tier):
    """full menu with every other argument-shape statement removed"""
    out = []
    k = 0
    for ev in events(env, tier):
        if ev[0] == "stmt" and ev[1] in ("G", "H", "H2") and ev[2] is not None and (ev[2] or ev[3]):
            k += 1
            if k % 2:
                continue
        out.append(ev)
    return out


def menu_events(env, tier, menu):
    return events(env, tier) if menu == "full" else (medium_events(env, tier) if menu == "medium" else core_events(env))


def _subtree(task):
    """enumerate every extension of `hist` by up to `depth` further events; check every state"""
    import hashlib
    mi, hist, depth, tier, menu = task
    meta = A.METAS[mi]
    n = ood = agree = 0
    hashes = []
    viols = common.Violations(keep=3)
    sample = None
    stack = [(hist, depth)]
    first = True
    while stack:
        h, d = stack.pop()
        if not first or True:
            sc = dict(meta, items=h)
            n += 1
            r = check_script(sc)
            if r == "ood":
                ood += 1
            else:
                text = lang.render(sc)
                if any(it[0] in ("stmt", "for") for it in h):
                    hashes.append(int.from_bytes(hashlib.blake2b(text.encode(), digest_size=8).digest(), "big"))
                if r is None:
                    agree += 1
                    sample = text
                else:
                    viols.add(r[0], {"text": text, "ast": repr(sc)}, r[1])
        if d > 0:
            env = {it[2] for it in h if it[0] in ("decl", "arr")}
            evs = menu_events(env, tier, menu)
            for ev in evs:
                stack.append((h + [ev], d - 1))
    return n, ood, agree, hashes, viols.records(), sample


def _long(sc):
    return check_script(sc)


def run(ctx):
    # (metadata variants, depth, menu) per phase; every phase is a complete enumeration
    if ctx.quick:
        phases = [("first", 2, "full"), ("all", 1, "full"), ("all", 2, "core"), ("first", 3, "core")]
    else:
        phases = [("first", 3, "medium"), ("all", 2, "full"), ("all", 3, "core"), ("first", 4, "core")]
    stats = collections.Counter()
    allv = common.Violations(keep=10)
    distinct = set()
    samples = []
    bounds = []
    order = common.shard(range(len(A.METAS)), ctx.seed)
    for which, depth, menu in phases:
        metas = order if which == "all" else (order[:2] if which == "first2" else order[:1])
        tasks = []
        for mi in metas:
            evs0 = menu_events(set(), ctx.tier, menu)
            for ev in evs0:
                if depth >= 3 and menu in ("full", "medium"):
                    # smaller tasks: one per two-event prefix (the one-event prefix itself is checked once, here)
                    env1 = {ev[2]} if ev[0] in ("decl", "arr") else set()
                    tasks.append((mi, [ev], 0, ctx.tier, menu))
                    for ev2 in menu_events(env1, ctx.tier, menu):
                        tasks.append((mi, [ev, ev2], depth - 2, ctx.tier, menu))
                else:
                    tasks.append((mi, [ev], depth - 1, ctx.tier, menu))
        res = pool.pmap(_subtree, tasks, chunk=1, timeout=7200)
        n0 = stats["evaluations"]
        for r in res:
            if r == "TIMEOUT":
                allv.add("C02/no-outcome", {"text": "subtree timeout", "ast": "None"}, "timeout")
                continue
            n, ood, agree, hashes, viols, sample = r
            stats["evaluations"] += n
            stats["out_of_domain"] += ood
            stats["agree"] += agree
            distinct.update(hashes)
            allv.merge(viols)
            if sample and len(samples) < 6 and len(sample) > 40 and hash(sample) % 7 == 0:
                samples.append(sample)
        bounds.append({"metadata_variants": [A.METAS[m]["name"] for m in metas], "depth": depth, "menu": menu,
                       "menu_size_empty_env": len(evs0), "scripts": stats["evaluations"] - n0})
    # long scripts: every menu event in ONE script, in every rotation of the statement order (state carried across
    # many statements: counters, caches, accumulated modes)
    longs = []
    decls = list(A.DECLS)
    env = {d[2] for d in decls}
    has_empty = lambda e: e[0] == "stmt" and any(v == ("list", []) for _, v in e[3])
    stmts = [e for e in events(env, ctx.tier) if e[0] not in ("decl", "arr") and not has_empty(e)]   # (empty lists hit finding F9 and would mask the rest)
    step = 1 if not ctx.quick else 4
    for r in range(0, len(stmts), step):
        rot = stmts[r:] + stmts[:r]
        for mi in (order[:2] if ctx.quick else order):
            longs.append(dict(A.METAS[mi], items=decls + rot))
    res = pool.pmap(_long, longs, chunk=2)
    nlong = 0
    for sc, r in zip(longs, res):
        stats["evaluations"] += 1
        nlong += 1
        if r == "ood":
            stats["out_of_domain"] += 1
        elif r is None:
            stats["agree"] += 1
            distinct.add(hash(lang.render(sc)))
        elif r == "TIMEOUT":
            allv.add("C02/no-outcome", {"text": lang.render(sc)[:500], "ast": repr(sc)}, "timeout")
        else:
            allv.add(r[0] if r[0] == "C02/empty-list-keyword" else r[0] + ":long-script", {"text": lang.render(sc), "ast": repr(sc)}, r[1])
    bounds.append({"family": "long scripts: all %d statement events of the menu in one script, every %s rotation" % (len(stmts), "4th" if ctx.quick else ""), "scripts": nlong})
    if not samples:
        samples = [lang.render(dict(A.METAS[0], items=[events(set(), ctx.tier)[9]]))]
    cov = {
        "evaluations": stats["evaluations"], "distinct_nontrivial": len(distinct),
        "rule": "breadth-first enumeration of ALL item sequences over the statement menu (events valid in the current environment) "
                "up to the depth listed per phase in `bounds`; every prefix is rendered, loaded and compared with the reference denotation; "
                "non-trivial = script with >=1 statement or loop; distinct = distinct rendered text (hashed)",
        "samples": samples, "exhaustive": True, "bounds": bounds,
        "agree": stats["agree"], "out_of_domain": stats["out_of_domain"],
        "distinct_outcomes": allv.classes() + 1,
    }
    return {"coverage": cov, "violations": allv.records(),
            "assumptions": ["reference denotation (bbv/model/denote.py) is the oracle", "values compared kind-aware, literals exact, expressions to 1e-12 relative"]}


def replay(case):
    sc = pyast.literal_eval(case["ast"])
    r = check_script(sc)
    if r in (None, "ood"):
        return False, "agrees with the model" if r is None else "out of domain"
    return True, "%s: %s" % r
