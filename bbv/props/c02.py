"""C02  Loading a script yields exactly the program the script denotes.

Exhaustive breadth-first enumeration of script prefixes (a state = list of top-level items so far,
an event = one more item from the menu valid in the current environment).  Every state is rendered,
loaded by the implementation and compared with the reference denotation.
"""
import ast as pyast
import collections

from bbv.core import pool, observe
from bbv.model import lang, denote, alphabet as A
from bbv.model.lang import N, V, B, U
from . import common

LEVEL = "exploration"


def events(env, tier):
    """menu of next items given the set of declared names"""
    ev = [d for d in A.DECLS if d[2] not in env]
    # re-declaration of an existing scalar (the later declaration wins, and it may use the old value)
    if "n" in env:
        ev.append(("decl", "int", "n", B("+", V("n"), N("4"))))
    if "x" in env:
        ev.append(("decl", "float", "x", N("7.5")))
    for style, modes in A.MODE_FORMS:
        if all(A.needs(m) <= env for m in modes):
            ev.append(("stmt", "G", None, [], modes, style))
    ev.append(("stmt", "MeasureX", None, [], [N("0")], "none"))
    ev.append(("stmt", "Measure", None, [], [N("1"), N("0")], "sq"))
    ev.append(("stmt", "MeasureFock", [], [("select", lang.L(N("0"), N("1")))], [N("0"), N("1")], "sq"))
    ev.append(("stmt", "G", [], [], [N("0")], "none"))
    shapes = [a for _, a in A.ARG_SHAPES if A.needs(a) <= env]
    for a in shapes:
        ev.append(("stmt", "G", [a], [], [N("0")], "none"))
    for a in shapes:
        ev.append(("stmt", "H", [], [("k", a)], [N("1"), N("0")], "sq"))
    two = shapes if tier == "thorough" else shapes[::3]
    for i, a in enumerate(two):
        b = two[(i + 1) % len(two)]
        ev.append(("stmt", "H2", [a, b], [("k", b), ("l", a)], [N("1")], "rd"))
    for k in A.KW_LISTS + (A.KW_LISTS_T if tier == "thorough" else []):
        if A.needs(k) <= env:
            ev.append(("stmt", "K", [], [("k", k), ("l", N("2"))], [N("0")], "none"))
            ev.append(("stmt", "K", [N("1")], [("k", k)], [N("0")], "none"))
    kl = [k for k in A.KW_LISTS if A.needs(k) <= env]
    for i, k1 in enumerate(kl[:5]):
        k2 = kl[(i + 1) % len(kl)]
        ev.append(("stmt", "K2", [], [("k", k1), ("m", k2), ("z", k1)], [N("0")], "none"))
    ev.append(("for", "int", "i", ("range", 0, 2, None), [("stmt", "L", [V("i")], [], [V("i"), B("+", V("i"), N("1"))], "sq")]))
    ev.append(("for", "float", "t", ("vals", [N("0.5"), N("2")], "sq"), [("stmt", "L", [], [("k", V("t"))], [N("0")], "none"), ("stmt", "M", None, [], [N("1")], "none")]))
    # ranges with a step that does not divide the span (a:b:c denotes a, a+c, ... below b)
    ev.append(("for", "int", "j", ("range", 0, 5, 2), [("stmt", "L2", [V("j")], [], [V("j")], "none")]))
    ev.append(("for", "int", "j", ("range", 1, 11, 3), [("stmt", "L3", [], [("k", B("*", V("j"), N("2")))], [B("+", V("j"), N("1")), V("j")], "rd")]))
    # value lists of strings / booleans: one value of any length, several values
    ev.append(("for", "str", "w", ("vals", [lang.S("xp")], "sq"), [("stmt", "L4", [V("w")], [("k", V("w"))], [N("0")], "none")]))
    ev.append(("for", "str", "w", ("vals", [lang.S(""), lang.S("a b"), lang.S("q0")], "none"), [("stmt", "L5", [V("w")], [], [N("1")], "none")]))
    ev.append(("for", "bool", "f", ("vals", [lang.BOOL(False), lang.BOOL(True)], "rd"), [("stmt", "L6", [], [("k", V("f"))], [N("1")], "none")]))
    # a loop variable called like a variable declared before (inside the loop the name is the loop value)
    if "n" in env:
        ev.append(("for", "int", "n", ("range", 0, 2, None), [("stmt", "L7", [V("n"), B("+", V("n"), N("5"))], [("k", V("n"))], [V("n")], "none")]))
    # a body of several statements of different kinds (differently named measurements, gates with / without arguments)
    ev.append(("for", "int", "m", ("range", 0, 2, None), [("stmt", "MeasureX", None, [], [V("m")], "none"), ("stmt", "MeasureP", None, [], [B("+", V("m"), N("2"))], "none"),
                                                          ("stmt", "G", [V("m")], [], [V("m")], "none"), ("stmt", "MeasureHomodyne", [], [("phi", V("m"))], [N("0")], "none"), ("stmt", "Vac", None, [], [N("1")], "none")]))
    ev.append(("blank",))
    return ev


@common.guarded("C02")
def check_script(sc):
    """returns None (agree), 'ood', or (key, detail)"""
    text = lang.render(sc)
    try:
        m = denote.Model().run(sc)
    except (denote.OutOfDomain, denote.Refused):
        return "ood"        # not a valid script (e.g. a name used after the loop that took it over): outside the quantifier
    st, p = common.loads(text)
    if st == "exc":
        return ("C02/load-raises:" + type(p).__name__, common.exc_sig(p))
    errs = denote.compare(m, p)
    if not errs and len(text) % 8 == 0:
        # what a caller does to a returned program is its own business: the same text loaded again still denotes the same
        p.operations.append({"op": "Appended", "modes": [99]})
        if p.operations and p.operations[0].get("args"):
            p.operations[0]["args"][0] = "changed"
        p.target["options"]["changed"] = 1
        p.modes.add(99)
        st, p = common.loads(text)
        if st == "exc":
            return ("C02/second-load-raises:" + type(p).__name__, common.exc_sig(p))
        errs = ["second-load:" + e for e in denote.compare(m, p)]
    if not errs:
        return None
    # classifier: is the only difference that keywords whose value is the empty list are missing?
    dropped = False
    for o in m.ops:
        if o["kwargs"]:
            kept = [(k, v) for k, v in o["kwargs"] if v != []]
            if len(kept) != len(o["kwargs"]):
                dropped = True
                o["kwargs"] = kept
    for tag in (m.target, m.type):
        kept = [(k, v) for k, v in tag["options"] if v != []]
        if len(kept) != len(tag["options"]):
            dropped = True
            tag["options"] = kept
    if dropped and not denote.compare(m, p):
        return ("C02/empty-list-keyword", "; ".join(errs))
    return ("C02/mismatch:" + "|".join(sorted(set(e.split(" ")[0].rstrip("0123456789") if not e.startswith("op") else e.split("-", 1)[1] for e in errs))), "; ".join(errs))


CORE_ARGS = 12


def core_events(env):
    """reduced menu used for the deepest level of the quick tier"""
    full = events(env, "quick")
    out = []
    seen_g = seen_h = 0
    for ev in full:
        if ev[0] in ("decl", "arr"):
            if ev[2] in ("n", "x", "A"):
                out.append(ev)
        elif ev[0] == "stmt" and ev[1] == "G" and ev[2] is None:
            if ev[5] in ("none", "sq", "rd") and len(out) < 40 and ev[4][0][0] == "num":
                out.append(ev)
        elif ev[0] == "stmt" and ev[1] == "G" and ev[2]:
            seen_g += 1
            if seen_g % 4 == 1:
                out.append(ev)
        elif ev[0] == "stmt" and ev[1] == "H":
            seen_h += 1
            if seen_h % 9 == 2:
                out.append(ev)
        elif ev[0] == "stmt" and ev[1] == "K" and ev[2] == []:
            if ev[3][0][1][1] and len(ev[3][0][1][1]) == 2 and ev[3][0][1][1][0][0] in ("num", "str"):
                out.append(ev)
        elif ev[0] == "stmt" and ev[1] in ("MeasureX", "MeasureFock"):
            out.append(ev)
        elif ev[0] in ("for", "blank"):
            out.append(ev)
    return out


def medium_events(env, tier):
    """full menu with every other argument-shape statement removed"""
    out = []
    k = 0
    for ev in events(env, tier):
        if ev[0] == "stmt" and ev[1] in ("G", "H", "H2") and ev[2] is not None and (ev[2] or ev[3]):
            k += 1
            if k % 2:
                continue
        out.append(ev)
    return out


def menu_events(env, tier, menu):
    return events(env, tier) if menu == "full" else (medium_events(env, tier) if menu == "medium" else core_events(env))


def _subtree(task):
    """enumerate every extension of `hist` by up to `depth` further events; check every state"""
    import hashlib
    mi, hist, depth, tier, menu = task
    meta = A.METAS[mi]
    n = ood = agree = 0
    hashes = []
    viols = common.Violations(keep=3)
    sample = None
    stack = [(hist, depth)]
    first = True
    while stack:
        h, d = stack.pop()
        if not first or True:
            sc = dict(meta, items=h)
            n += 1
            r = check_script(sc)
            if r == "ood":
                ood += 1
            else:
                text = lang.render(sc)
                if any(it[0] in ("stmt", "for") for it in h):
                    hashes.append(int.from_bytes(hashlib.blake2b(text.encode(), digest_size=8).digest(), "big"))
                if r is None:
                    agree += 1
                    sample = text
                else:
                    viols.add(r[0], {"text": text, "ast": repr(sc)}, r[1])
        if d > 0:
            env = {it[2] for it in h if it[0] in ("decl", "arr")}
            evs = menu_events(env, tier, menu)
            for ev in evs:
                stack.append((h + [ev], d - 1))
    return n, ood, agree, hashes, viols.records(), sample


# ---------------------------------------------------------------------------------------------------------
# deep search with state merging (explicit-state BFS over script prefixes)
#
# A state is a script prefix; its canonical form is what the rest of a walk can depend on: the model environment
# (declared names and their values), the implementation's own tables as the load of the prefix leaves them (_VAR,
# _PARAMS - read by getattr, a missing table only makes the key coarser), the set of modes so far, the number of
# operations so far (capped at 3: none / one / two / many) and the kinds of the last two items (what a flag such as
# "just left a loop" can remember).  Prefixes with the same canonical form are continued from ONE representative, the
# first found in breadth-first order (so the representative is also a shortest one).  EVERY script that is reached
# - representative or not - is loaded and compared with the model in full, so merging can only cost coverage of the
# deeper levels, never raise an alarm, and the evidence reports states, transitions and the frontier per level.

DEEP_LAST = 2      # how many trailing item kinds belong to the canonical state (quick: 1)


def _kind(it):
    if it[0] == "stmt":
        return "stmt:%s:%s" % (it[1], "bare" if it[2] is None else "args")
    if it[0] == "for":
        return "for:%s:%s" % (it[1], it[3][0])
    return it[0] + (":" + it[2] if it[0] in ("decl", "arr") else "")


def _impl_tables():
    try:
        from blackbird import auxiliary as aux
    except Exception:  # noqa
        return None
    out = []
    for n in ("_VAR", "_PARAMS"):
        t = getattr(aux, n, None)
        try:
            out.append(repr(observe.canon(dict(t) if isinstance(t, dict) else list(t) if t is not None else None)))
        except Exception:  # noqa
            out.append("?")
    return tuple(out)


def _deep_key(sc):
    m = denote.Model().run(sc)
    env = tuple(sorted((k, repr(v)) for k, v in m.env.items()))
    h = sc["items"]
    return (env, tuple(sorted(m.modes)), min(len(m.ops), 3), tuple(_kind(i) for i in h[-DEEP_LAST:]), _impl_tables())


def deep_events(env):
    """the core menu plus one statement per argument class that reads a declared variable"""
    out = core_events(env)
    if "A" in env and "n" in env:
        out.append(("stmt", "D", [lang.IDX("A", V("n"))], [("k", B("*", V("n"), N("2")))], [V("n")], "none"))
    if "x" in env:
        out.append(("stmt", "D2", [B("**", V("x"), N("2"))], [("k", lang.L(V("x"), N("1")))], [N("1")], "none"))
    return out


def _deep_expand(task):
    """all successors of one representative prefix: (event index, verdict, key, text hash)"""
    import hashlib
    mi, hist = task
    meta = A.METAS[mi]
    env = {it[2] for it in hist if it[0] in ("decl", "arr")}
    out = []
    for k, ev in enumerate(deep_events(env)):
        sc = dict(meta, items=hist + [ev])
        r = check_script(sc)
        if r == "ood":
            out.append((k, "ood", None, None))
            continue
        tables = _impl_tables()       # read before anything else is loaded
        text = lang.render(sc)
        hsh = int.from_bytes(hashlib.blake2b(text.encode(), digest_size=8).digest(), "big")
        try:
            key = _deep_key(sc)[:4] + (tables,)
        except (denote.OutOfDomain, denote.Refused):
            key = None
        out.append((k, r, key, hsh))
    return out


def deep_search(ctx, mi, depth, cap):
    """breadth-first over prefixes with merging; returns (stats dict, violations, per-level list)"""
    V_ = common.Violations(keep=3)
    seen = set()
    frontier = [[]]
    levels = []
    st = collections.Counter()
    hashes = set()
    capped = False
    for d in range(1, depth + 1):
        res = pool.pmap(_deep_expand, [(mi, h) for h in frontier], chunk=1, timeout=3600)
        nxt = []
        ntrans = 0
        for h, r in zip(frontier, res):
            if r == "TIMEOUT":
                V_.add("C02/no-outcome", {"text": "deep search: successor set of a prefix", "ast": repr(dict(A.METAS[mi], items=h))}, "timeout")
                continue
            env = {it[2] for it in h if it[0] in ("decl", "arr")}
            evs = deep_events(env)
            for k, verdict, key, hsh in r:
                ntrans += 1
                if verdict == "ood":
                    st["out_of_domain"] += 1
                    continue
                hashes.add(hsh)
                h2 = h + [evs[k]]
                if verdict is None:
                    st["agree"] += 1
                else:
                    sc = dict(A.METAS[mi], items=h2)
                    V_.add(verdict[0] if verdict[0] == "C02/empty-list-keyword" else verdict[0] + ":deep", {"text": lang.render(sc), "ast": repr(sc)}, verdict[1])
                    continue          # a prefix that already disagrees is not continued: its extensions would repeat the report
                if key is not None and key not in seen:
                    seen.add(key)
                    nxt.append(h2)
        st["transitions"] += ntrans
        levels.append({"depth": d, "representatives_expanded": len(frontier), "scripts_checked": ntrans, "new_states": len(nxt)})
        if cap and len(nxt) > cap:
            capped = True
            levels[-1]["cap"] = "frontier of %d states not expanded further (cap %d): depth %d is complete, deeper levels were not started" % (len(nxt), cap, d)
            break
        frontier = nxt
    st["states"] = len(seen) + 1
    return st, V_, levels, hashes, capped


# ---------------------------------------------------------------------------------------------------------
# grammar-driven statements: every sentence of the rule `statement` up to L tokens, enumerated from the .g4

GTEXT = {"PLUS": "+", "MINUS": "-", "TIMES": "*", "DIVIDE": "/", "PWR": "**", "ASSIGN": "=", "INT": "2", "FLOAT": "0.5", "COMPLEX": "1+2j", "PI": "pi",
         "STR": '"s"', "BOOL": "True", "SQRT": "sqrt", "EXP": "exp", "COMMA": ",", "LBRAC": "(", "RBRAC": ")", "LSQBRAC": "[", "RSQBRAC": "]",
         "LBRACE": "{", "RBRACE": "}", "APPLY": "|", "MEASURE": "MeasureX", "NEWLINE": "\n"}
GPRE = "int n = 2\nint array A =\n    1, 2, 3, 4\n"
GDECLS = [("decl", "int", "n", N("2")), ("arr", "int", "A", None, [[N("1"), N("2"), N("3"), N("4")]])]


CYCLE = {"INT": ["2", "3", "7"], "FLOAT": ["0.5", "1.5", "0.25"], "COMPLEX": ["1+2j", "3-1j", "0.5j"]}


def gtexts(toks):
    """concrete text per token (NAME depends on its role, REGREFs alternate)"""
    out = []
    nreg = 0
    for i, t in enumerate(toks):
        if t == "NAME":
            nxt = toks[i + 1] if i + 1 < len(toks) else None
            if i == 0:
                out.append("G")
            elif nxt == "ASSIGN":
                out.append("k%d" % sum(1 for x in out if x.startswith("k") and x[1:].isdigit()))
            elif nxt == "LSQBRAC" and toks[i - 1] != "LBRACE":
                out.append("A")
            else:
                out.append("n")
        elif t == "REGREF":
            out.append("q%d" % nreg)         # distinct registers, so that none cancels identically
            nreg += 1
        elif t in CYCLE:
            # repeated literals differ too: `1+2j - 1+2j` is zero, and a register or parameter multiplied by it is gone
            k = sum(1 for x in toks[:i] if x == t)
            out.append(CYCLE[t][k % len(CYCLE[t])])
        else:
            out.append(GTEXT[t])
    return out


def _has_fn_of_symbol(v):
    from bbv.model.denote import Sym

    def w(t):
        if isinstance(t, tuple):
            if t and t[0] == "fn":
                return any(isinstance(x, tuple) and _contains_sym(x) for x in t[1:])
            return any(w(x) for x in t[1:])
        return False

    def _contains_sym(t):
        if isinstance(t, tuple):
            if t and t[0] in ("p", "q"):
                return True
            return any(_contains_sym(x) for x in t[1:])
        return False
    if isinstance(v, Sym):
        return w(v.tree) or (v.tree[0] == "fn" and _contains_sym(v.tree))
    if isinstance(v, list):
        return any(_has_fn_of_symbol(x) for x in v)
    return False


@common.guarded("C02")
def gcheck(toks):
    """returns None (agree) | 'skip:<why>' | (key, detail)"""
    from bbv.model import refparse
    from bbv.g4 import sentences as S_
    if toks.count("PWR") >= 2 and "COMPLEX" in toks:
        # a tower of powers with a complex operand: the relative error of z**w grows with |w log z|, a tower compounds it,
        # and intermediate results leave the double range at ordinary arguments - no fixed tolerance is sound there
        return "skip:complex-power-tower"
    texts = gtexts(toks)
    line = S_.to_text(toks, dict(zip(toks, texts))) if False else _join(toks, texts)
    script = "name g\nversion 1.0\n\n" + GPRE + line + ("" if line.endswith("\n") else "\n")
    body = [x for t, x in zip(toks, texts) if t != "NEWLINE"]
    try:
        stmt, readings = refparse.parse_statement(body)
    except refparse.Bad as e:
        return "skip:reference-parser:" + str(e)[:20]
    vals = []
    for rd in readings:
        try:
            m = denote.Model().run(dict(name="g", version="1.0", items=GDECLS + [stmt[:4] + (rd, "none")]))
            vals.append(m)
        except (denote.OutOfDomain, denote.Refused, IndexError, TypeError, KeyError, AttributeError, ZeroDivisionError, OverflowError):
            vals.append(None)
    ok = [m for m in vals if m is not None]
    if not ok:
        return "skip:model-rejects"
    if len(ok) > 1 and ok[0].ops[-1]["modes"] != ok[1].ops[-1]["modes"]:
        return "skip:ambiguous-mode-brackets"
    m = ok[0]
    o = m.ops[-1]
    if any(_has_fn_of_symbol(v) for v in (o["args"] or [])) or any(_has_fn_of_symbol(v) for _, v in (o["kwargs"] or [])):
        return "skip:function-of-symbol"
    regs_and_params = False
    for v in list(o["args"] or []) + [v for _, v in (o["kwargs"] or [])]:
        for x in (v if isinstance(v, list) else [v]):
            if isinstance(x, denote.Sym):
                kinds = {t[0] for t in x.syms()}
                if kinds == {"p", "q"}:
                    regs_and_params = True
    if regs_and_params:
        return "skip:parameter-and-register-in-one-expression"
    # an expression whose value does not depend on a symbol written in it (1 ** q0, q0 * (2 - 2), {n} - {n}): the symbol
    # cancels, and what a cancelled register or parameter leaves behind is outside every property's domain
    for v in list(o["args"] or []) + [v for _, v in (o["kwargs"] or [])]:
        for x in (v if isinstance(v, list) else [v]):
            if isinstance(x, denote.Sym):
                ss = sorted(x.syms())
                for one in ss:
                    vals = []
                    for pt in (0.37, 1.91, -2.3):
                        env_ = {t: 0.83 + 0.41 * k for k, t in enumerate(ss)}
                        env_[one] = pt
                        try:
                            vals.append(complex(x.ev(env_)))
                        except Exception:  # noqa
                            vals = None
                            break
                    if vals and max(abs(vals[0] - w_) for w_ in vals[1:]) <= 1e-12 * max(1.0, abs(vals[0])):
                        return "skip:symbol-cancels"
    st, p = common.loads(script)
    if st == "exc":
        return ("C02/grammar-driven:load-raises:" + type(p).__name__, common.exc_sig(p) + " ;; " + line.strip())
    # sentences are enumerated for their structure; a tower of powers with complex operands is ill-conditioned
    # (relative error grows with the size of the exponent), so values are compared to 1e-9 here: a different
    # grouping of operators is off by O(1)
    errs = denote.compare(m, p, rtol=1e-9)
    if not errs:
        return None
    # classifier shared with the menu part: empty list keywords
    dropped = False
    for oo in m.ops:
        if oo["kwargs"]:
            kept = [(k, v) for k, v in oo["kwargs"] if v != []]
            if len(kept) != len(oo["kwargs"]):
                dropped = True
                oo["kwargs"] = kept
    if dropped and not denote.compare(m, p, rtol=1e-9):
        return ("C02/empty-list-keyword", "; ".join(errs) + " ;; " + line.strip())
    return ("C02/grammar-driven:mismatch:" + "|".join(sorted(set(e.split("-", 1)[1] if e.startswith("op") else e.split(" ")[0] for e in errs))), "; ".join(errs)[:200] + " ;; " + line.strip())


def _join(toks, texts):
    out = []
    prev = None
    for t, x in zip(toks, texts):
        if prev is not None and prev != "NEWLINE" and t != "NEWLINE":
            out.append(" ")
        out.append(x)
        prev = t
    return "".join(out)


def _gchunk(chunk):
    st = collections.Counter()
    V = common.Violations(keep=3)
    sample = None
    for toks in chunk:
        r = gcheck(toks)
        st["sentences"] += 1
        if r is None:
            st["agree"] += 1
            sample = _join(toks, gtexts(toks)).strip()
        elif isinstance(r, str):
            st[r] += 1
        else:
            V.add(r[0], {"tokens": list(toks)}, r[1])
    return dict(st), V.records(), sample


def grammar_statements(budget):
    from bbv.g4 import sentences as S_, syntax
    o = syntax.Oracle()
    full = S_.interchange_classes(o.G)
    col = {}
    for t, rep in full.items():
        if rep == full.get("SIN"):
            col[t] = "EXP" if t == "EXP" else "SQRT"
        elif rep == full.get("TYPE_INT"):
            col[t] = rep
    col["SQRT"] = "SQRT"
    col["EXP"] = "EXP"
    per = S_.per_rule_sentences(o.G, ["statement", "arguments"], col, budget)
    return per["statement"], per["arguments"]


def _long(sc):
    return check_script(sc)


def run(ctx):
    # (metadata variants, depth, menu) per phase; every phase is a complete enumeration
    if ctx.quick:
        phases = [("first", 2, "full"), ("all", 1, "full"), ("all", 2, "core"), ("first", 3, "core")]
    else:
        phases = [("first", 3, "medium"), ("all", 2, "full"), ("all", 3, "core")]      # (depth 4 over the core menu, 4 million scripts, was dropped: about half an hour for no family it does not already hold)
    stats = collections.Counter()
    allv = common.Violations(keep=10)
    distinct = set()
    samples = []
    bounds = []
    order = common.shard(range(len(A.METAS)), ctx.seed)
    for which, depth, menu in phases:
        metas = order if which == "all" else (order[:2] if which == "first2" else order[:1])
        tasks = []
        for mi in metas:
            evs0 = menu_events(set(), ctx.tier, menu)
            for ev in evs0:
                if depth >= 3 and menu in ("full", "medium"):
                    # smaller tasks: one per two-event prefix (the one-event prefix itself is checked once, here)
                    env1 = {ev[2]} if ev[0] in ("decl", "arr") else set()
                    tasks.append((mi, [ev], 0, ctx.tier, menu))
                    for ev2 in menu_events(env1, ctx.tier, menu):
                        tasks.append((mi, [ev, ev2], depth - 2, ctx.tier, menu))
                else:
                    tasks.append((mi, [ev], depth - 1, ctx.tier, menu))
        res = pool.pmap(_subtree, tasks, chunk=1, timeout=7200)
        n0 = stats["evaluations"]
        for r in res:
            if r == "TIMEOUT":
                allv.add("C02/no-outcome", {"text": "subtree timeout", "ast": "None"}, "timeout")
                continue
            n, ood, agree, hashes, viols, sample = r
            stats["evaluations"] += n
            stats["out_of_domain"] += ood
            stats["agree"] += agree
            distinct.update(hashes)
            allv.merge(viols)
            if sample and len(samples) < 6 and len(sample) > 40 and hash(sample) % 7 == 0:
                samples.append(sample)
        bounds.append({"metadata_variants": [A.METAS[m]["name"] for m in metas], "depth": depth, "menu": menu,
                       "menu_size_empty_env": len(evs0), "scripts": stats["evaluations"] - n0})
    # deep search with state merging (see the comment at deep_search)
    global DEEP_LAST
    deep_plan = [(1, 4, order[0])] if ctx.quick else [(2, 4, order[0]), (1, 6, order[0]), (1, 5, order[1 % len(order)])]
    deep_states = deep_trans = 0
    for last, depth, mi in deep_plan:
        DEEP_LAST = last          # module global read by the workers (forked per pmap call, after this assignment)
        st_, V_, levels, hashes_, capped = deep_search(ctx, mi, depth, 0)
        stats["evaluations"] += st_["transitions"]
        stats["agree"] += st_["agree"]
        stats["out_of_domain"] += st_["out_of_domain"]
        deep_states += st_["states"]
        deep_trans += st_["transitions"]
        distinct.update(hashes_)
        allv.merge(V_.records())
        bounds.append({"family": "deep search with state merging: breadth-first over script prefixes, one representative per canonical state "
                                 "(model environment, implementation tables after the load, mode set, number of operations capped at 3, kinds of the last %d item(s)); "
                                 "every reached script is loaded and compared with the model" % last,
                       "metadata_variant": A.METAS[mi]["name"], "depth_completed": levels[-1]["depth"], "states": st_["states"], "transitions": st_["transitions"], "levels": levels})
    # long scripts: every menu event in ONE script, in every rotation of the statement order (state carried across
    # many statements: counters, caches, accumulated modes)
    longs = []
    decls = list(A.DECLS)
    env = {d[2] for d in decls}
    has_empty = lambda e: e[0] == "stmt" and any(v == ("list", []) for _, v in e[3])
    stmts = [e for e in events(env, ctx.tier) if e[0] not in ("decl", "arr") and not has_empty(e)]   # (empty lists hit finding F9 and would mask the rest)
    step = 1 if not ctx.quick else 4
    for r in range(0, len(stmts), step):
        rot = stmts[r:] + stmts[:r]
        for mi in (order[:2] if ctx.quick else order):
            longs.append(dict(A.METAS[mi], items=decls + rot))
    res = pool.pmap(_long, longs, chunk=2)
    nlong = 0
    for sc, r in zip(longs, res):
        stats["evaluations"] += 1
        nlong += 1
        if r == "ood":
            stats["out_of_domain"] += 1
        elif r is None:
            stats["agree"] += 1
            distinct.add(hash(lang.render(sc)))
        elif r == "TIMEOUT":
            allv.add("C02/no-outcome", {"text": lang.render(sc)[:500], "ast": repr(sc)}, "timeout")
        else:
            allv.add(r[0] if r[0] == "C02/empty-list-keyword" else r[0] + ":long-script", {"text": lang.render(sc), "ast": repr(sc)}, r[1])
    bounds.append({"family": "long scripts: all %d statement events of the menu in one script, every %s rotation" % (len(stmts), "4th" if ctx.quick else ""), "scripts": nlong})
    # grammar-driven statements
    (L, sents), (LA, asents) = grammar_statements(300000 if ctx.quick else 3000000)
    if ctx.quick:
        asents = [a for a in asents if len(a) <= LA - 1]      # arguments: one token less in the quick tier
        LA -= 1
    # argument lists are mostly well-formed: each is embedded as  G<arguments> | 2
    sents = list(sents) + [("NAME",) + a + ("APPLY", "INT") for a in asents]
    sents = common.shard(sents, ctx.seed)
    chunks = [sents[i:i + 500] for i in range(0, len(sents), 500)]
    gst = collections.Counter()
    for r in pool.pmap(_gchunk, chunks, chunk=1, timeout=3600):
        if r == "TIMEOUT":
            allv.add("C02/no-outcome", {"text": "grammar-driven chunk", "ast": "None"}, "timeout")
            continue
        st_, vr, smp = r
        gst.update(st_)
        allv.merge(vr)
        if smp and len(samples) < 9 and len(smp) > 25:
            samples.append(smp)
    stats["evaluations"] += gst["sentences"]
    stats["agree"] += gst["agree"]
    gdistinct = gst["agree"] + sum(c for k, c in allv.count.items() if "grammar-driven" in k)
    bounds.append({"family": "grammar-driven: ALL sentences of the rule `statement` with <= %d tokens enumerated from blackbird.g4 (token classes kept apart except the 15 functions -> 2), "
                   "and ALL sentences of the rule `arguments` with <= %d tokens embedded as G<arguments> | 2; parsed by an independent reference parser, evaluated by the model" % (L, LA), "sentences": gst["sentences"], "compared_with_model": gst["agree"],
                   "skipped": {k: v for k, v in gst.items() if k.startswith("skip:")}})
    if not samples:
        samples = [lang.render(dict(A.METAS[0], items=[events(set(), ctx.tier)[9]]))]
    cov = {
        "evaluations": stats["evaluations"], "distinct_nontrivial": len(distinct) + gdistinct,
        "rule": "breadth-first enumeration of ALL item sequences over the statement menu (events valid in the current environment) "
                "up to the depth listed per phase in `bounds`; every prefix is rendered, loaded and compared with the reference denotation; "
                "non-trivial = script with >=1 statement or loop; distinct = distinct rendered text (hashed)",
        "samples": samples, "exhaustive": True, "bounds": bounds,
        "states": deep_states, "transitions": deep_trans,
        "agree": stats["agree"], "out_of_domain": stats["out_of_domain"],
        "distinct_outcomes": allv.classes() + 1,
    }
    return {"coverage": cov, "violations": allv.records(),
            "assumptions": ["reference denotation (bbv/model/denote.py) is the oracle", "values compared kind-aware, literals exact, expressions to 1e-12 relative"]}


def replay(case):
    if "tokens" in case:
        r = gcheck(tuple(case["tokens"]))
        return isinstance(r, tuple), repr(r)[:300]
    sc = pyast.literal_eval(case["ast"])
    r = check_script(sc)
    if r in (None, "ood"):
        return False, "agrees with the model" if r is None else "out of domain"
    return True, "%s: %s" % r
