"""Helpers shared by the property modules."""
import itertools
import re

from bbv.core import observe

LINECOL = re.compile(r"\(line (\d+):(\d+)\)")


def loads(text):
    """Run blackbird.loads from empty module tables; returns ('ok', program) or ('exc', exception)."""
    import blackbird
    observe.reset_tables()
    try:
        return "ok", blackbird.loads(text)
    except RecursionError as e:
        return "exc", e
    except Exception as e:  # noqa
        return "exc", e


def load_file(path):
    import blackbird
    observe.reset_tables()
    try:
        return "ok", blackbird.load(path)
    except Exception as e:  # noqa
        return "exc", e


SCRATCH = None     # set by a check's run() before workers are forked; replay creates its own


def file_route(p):
    """Serialise `p` with blackbird.dump into a file and read it back with blackbird.load.  The SAME path is used for
    every program a worker handles (programs follow one another through one file name, as in any tool that keeps a
    working file).  Returns ('ok', program, text on disk) or ('exc', exception, stage)."""
    import os
    import tempfile
    import blackbird
    global SCRATCH
    if SCRATCH is None or not os.path.isdir(SCRATCH):
        SCRATCH = tempfile.mkdtemp(prefix="bbv-files-")
    path = os.path.join(SCRATCH, "work-%d.xbb" % os.getpid())
    try:
        with open(path, "w", encoding="utf-8", newline="") as f:
            blackbird.dump(p, f)
    except Exception as e:  # noqa
        return "exc", _nopath(e, path), "dump"
    with open(path, encoding="utf-8", newline="") as f:
        text = f.read()
    observe.reset_tables()
    try:
        return "ok", blackbird.load(path), text
    except Exception as e:  # noqa
        return "exc", _nopath(e, path), "load"


def _nopath(e, path):
    """the working file's name (it contains the process id) is taken out of the message, so that reports compare"""
    try:
        e.args = tuple(a.replace(path, "<FILE>") if isinstance(a, str) else a for a in e.args)
    except Exception:  # noqa
        pass
    return e


def dumps(p):
    import blackbird
    try:
        return "ok", blackbird.dumps(p)
    except Exception as e:  # noqa
        return "exc", e


def exc_sig(e):
    return "%s: %s" % (type(e).__name__, str(e)[:200])


def msgclass(e):
    """message with positions, numbers and quoted identifiers abstracted (for violation class keys)"""
    m = str(e.args[0]) if getattr(e, "args", None) else str(e)
    m = re.sub(r"Blackbird SyntaxError \(line \d+:\d+\): ", "", m)
    m = re.sub(r"'[^']*'", "'_'", m)
    m = re.sub(r"\{[^}]*\}", "{_}", m)
    m = re.sub(r"[-+]?\d[\d.e+-]*j?", "N", m)
    return m[:50]


def is_bbsyntax(e):
    return type(e).__name__ == "BlackbirdSyntaxError"


def shard(items, seed):
    """deterministic rotation of the processing order by VERIF_SEED (never selects a subset)"""
    items = list(items)
    if not items:
        return items
    k = seed % len(items)
    return items[k:] + items[:k]


def sample(xs, n=5):
    xs = list(xs)
    if len(xs) <= n:
        return xs
    step = max(1, len(xs) // n)
    return [xs[i] for i in range(0, len(xs), step)][:n]


def viol(key, case, detail):
    return {"key": key, "case": case, "detail": detail}


class Violations:
    """Collects violation records: full record for the first `keep` cases of each class, a count for the rest."""

    def __init__(self, keep=10):
        self.keep = keep
        self.by_key = {}
        self.count = {}

    def add(self, key, case, detail):
        """`case` may be a zero-argument callable producing the JSON-able case (built only if kept)"""
        self.count[key] = self.count.get(key, 0) + 1
        lst = self.by_key.setdefault(key, [])
        if len(lst) < self.keep:
            lst.append({"key": key, "case": case() if callable(case) else case, "detail": detail})

    def merge(self, records):
        """fold in the records() of another collector (e.g. from a worker)"""
        for r in records:
            key = r["key"]
            self.count[key] = self.count.get(key, 0) + r.get("count", 0)
            lst = self.by_key.setdefault(key, [])
            if len(lst) < self.keep:
                lst.append({"key": key, "case": r["case"], "detail": r["detail"]})

    def records(self):
        out = []
        for key, lst in self.by_key.items():
            lst[0]["count"] = self.count[key]
            out.extend(lst)
        return out

    def classes(self):
        return len(self.by_key)


def guarded(pid):
    """Decorator for case functions returning None | 'skip' | (key, detail): an exception raised while the harness
    inspects what the implementation returned (a missing operation, an unexpected type ...) is reported as a violation
    of that case - the implementation produced something the property's observation points cannot even read - instead
    of crashing the whole check."""
    import functools
    import traceback

    def deco(f):
        @functools.wraps(f)
        def w(*a, **k):
            try:
                return f(*a, **k)
            except (IndexError, KeyError, TypeError, AttributeError, ValueError, AssertionError) as e:
                tb = traceback.extract_tb(e.__traceback__)
                where = "%s:%d" % (tb[-1].filename.split("/")[-1], tb[-1].lineno) if tb else "?"
                return ("%s/unexpected-result-structure:%s" % (pid, type(e).__name__), "%s: %s at %s" % (type(e).__name__, str(e)[:150], where))
        return w
    return deco


# ---------------------------------------------------------------------------------------------------------------
# refusals in a child interpreter started with other flags (python -O strips assert statements: a refusal that is an
# assert is no refusal there)

_CHILD = r"""
import sys, json
import blackbird
out = []
for t in json.load(sys.stdin):
    try:
        blackbird.loads(t)
        out.append("ok")
    except Exception as e:
        out.append("exc:" + type(e).__name__)
print(json.dumps(out))
"""


def loads_in_child(task):
    """(texts, flags) -> list of 'ok' | 'exc:<Type>' as a child interpreter started with `flags` sees them"""
    import json
    import subprocess
    import sys
    texts, flags = task
    r = subprocess.run([sys.executable] + list(flags) + ["-W", "ignore", "-c", _CHILD], input=json.dumps(texts), capture_output=True, text=True)
    if r.returncode != 0:
        raise RuntimeError("child interpreter %r failed: %s" % (flags, r.stderr[-300:]))
    return json.loads(r.stdout.strip().split("\n")[-1])
