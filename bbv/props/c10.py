"""C10  Ungrammatical scripts always raise BlackbirdSyntaxError at the offending token.

All single-token deletions, truncations, substitutions, insertions and adjacent swaps of base
scripts covering every rule context, plus token soups after valid prefixes; oracle = reference
tokenizer + Earley recogniser derived from the .g4.
"""
import collections
import itertools
import os

from bbv.core import pool
from bbv.g4 import sentences, syntax
from . import common

LEVEL = "exploration"

BASES = {
    "meta-plain": "name prog\nversion 1.0\n\nG | 0\n",
    "meta-options": "name p\nversion 1.0\ntarget X8_01 (shots=10, l=[1, 2], s=\"a\")\ntype tdm (copies=2)\n\nG | 0\n",
    "include": "name p\nversion 1.0\ninclude \"lib.xbb\"\n\nG | 0\n",
    "scalars": "name p\nversion 1.0\n\nint n = 3\nfloat x = 2.0*sin(n)\ncomplex z = 1+2j\nbool b = True\nstr s = \"a\"\nG(n) | 0\n",
    "array-shape": "name p\nversion 1.0\n\ncomplex array U[1, 2] =\n    1+2j, 3.0\nG(U) | 0\n",
    "array-noshape": "name p\nversion 1.0\n\nfloat array A =\n    1.5, -2\n    {p}, pi\nG(A[1]) | 0\n",
    "statement-args": "name p\nversion 1.0\n\nSgate(0.5, n**2, -x/2, a=1, b=[1, \"c\"], d=True) | [0, 1]\n",
    "statement-modes": "name p\nversion 1.0\n\nBS | (2, 0)\nVac | 1, 2\nMeasureX | 0\n",
    "param-regref": "name p\nversion 1.0\n\nDgate({alpha}, 2*q0) | 1\n",
    "loop-range": "name p\nversion 1.0\n\nfor int i in 0:4:2\n    G(i) | i\n    H | [i, i+1]\nK | 0\n",
    "loop-list": "name p\nversion 1.0\n\nfor float t in [0.5, 2]\n    G(t) | 0\n",
    "funcs": "name p\nversion 1.0\n\nG(sqrt(2)+log(x)**2, (1+2)*3) | 0\n",
    # each kind of item as the LAST thing in the text (truncations and deletions next to the end of input)
    "array-last": "name p\nversion 1.0\n\nG | 0\nfloat array A =\n    1.5, -2\n    3, pi\n",
    "array-template-last": "name p\nversion 1.0\n\nfloat array A[1, 2] =\n    {P}\n",
    "scalar-last": "name p\nversion 1.0\n\nG | 0\nint n = 3\n",
}

JUNK = ["$", ";", "\\", "@", "~", "?", "%", "é"]
# Characters that are ordinary (invalid, or legal inside comments/strings) for the grammar but that Python string
# methods treat specially - line boundaries of str.splitlines, Unicode blanks of str.strip/split, Unicode digits of
# int()/isdigit, NUL, BOM.  "For all character strings" must include them wherever a token, a comment or a string can be.
EXOTIC = ["\x0b", "\x0c", "\x1c", "\x1e", "\x85", "\u2028", "\u2029", "\xa0", "\u3000", "\ufeff", "\x00", "\u0661"]

_oracle = None


def oracle():
    global _oracle
    if _oracle is None:
        _oracle = syntax.Oracle()
    return _oracle


@common.guarded("C10")
def judge(text, also_loads=True):
    """None if the implementation behaves as C10 demands on `text`, else (key-suffix, detail)"""
    o = oracle()
    m = o.verdict(text)
    r = syntax.syntax_stage(text)
    if m[0] == "OK":
        if r[0] != "OK":
            return ("grammatical-rejected", "syntax stage: %r" % (r,))
        return None
    if r[0] == "OK":
        return ("ungrammatical-accepted", "oracle: first non-viable token at %r" % (m[1],))
    if r[0] == "OTHER":
        return ("wrong-exception:" + r[1], "syntax stage raised %s: %s; oracle error at %r" % (r[1], r[2], m[1]))
    pos = r[1]
    if pos is None:
        return ("no-position", r[2])
    toks_all = o.tokens(text, keep_skipped=True)
    starts = syntax.token_starts(text, toks_all)
    if pos not in starts:
        return ("position-not-a-token-start", "reported %r: %s" % (pos, r[2]))
    if pos < m[1]:
        return ("position-too-early", "reported %r but the text is viable up to %r: %s" % (pos, m[1], r[2]))
    if "\r" in text:
        # the checks above used ANTLR's own line counting (only \n starts a line); a reader counts every NEWLINE token
        true_starts = {syntax.linecol_true(text, t[2]) for t in toks_all} | {syntax.linecol_true(text, len(text))}
        true_first = syntax.linecol_true(text, m[3])
        if pos not in true_starts or pos < true_first:
            import re
            if re.search(r"\r(?!\n)", text):
                return ("cr-only-line-count", "reported %r; counting every line break the first non-viable token is at %r: %s" % (pos, true_first, r[2]))
            return ("crlf-position", "reported %r; first non-viable token at %r: %s" % (pos, true_first, r[2]))
    if also_loads:
        f = syntax.full_load(text)
        if f[0] == "PROGRAM":
            return ("loads-returned-program", "ungrammatical at %r" % (m[1],))
        if f[0] == "OTHER":
            return ("loads-wrong-exception:" + f[1], f[2])
        if f[1] != pos:
            return ("loads-position-differs", "%r vs %r" % (f[1], pos))
    return None


def _case(text):
    return judge(text)


VALID_FILE = "name ok\nversion 1.0\n\nfloat x = 0.5\nG(x) | 0\n"


def _file_case(args):
    """blackbird.load of a file with this text must behave as loads does (C10 is stated for load/loads)"""
    text, d = args
    import blackbird
    from bbv.core import observe
    os.makedirs(d, exist_ok=True)
    # one working file per worker: the text under test replaces a valid script that has just been loaded from the
    # same path (an editor saving over a file that was opened a moment ago)
    path = os.path.join(d, "c10_%d.xbb" % os.getpid())
    with open(path, "w", encoding="utf-8", newline="") as f:
        f.write(VALID_FILE)
    try:
        blackbird.load(path)
    except Exception:  # noqa
        pass
    with open(path, "w", encoding="utf-8", newline="") as f:
        f.write(text)
    m = oracle().verdict(text)
    observe.reset_tables()
    try:
        blackbird.load(path)
        out = ("PROGRAM",)
    except Exception as e:  # noqa
        out = ("BSE",) if type(e).__name__ == "BlackbirdSyntaxError" else ("OTHER", type(e).__name__, str(e).replace(path, "<FILE>").replace(d, "<D>")[:120])
    if m[0] == "OK":
        # grammatical: any semantic outcome is fine here, but the file must be *readable*
        if out[0] == "OTHER" and out[1] in ("UnicodeDecodeError", "UnicodeError"):
            return ("load-cannot-decode", out[2])
        return None
    if out[0] == "BSE":
        return None
    if out[0] == "PROGRAM":
        return ("load-returned-program", "")
    return ("load-wrong-exception:" + out[1], out[2])


def alphabet(o):
    toks = [t for t in o.L.names if t in sentences.EXEMPLARS and t not in ("SPACE", "COMMENT", "ANY")]
    return [sentences.EXEMPLARS[t] for t in toks] + ["    "] + JUNK + EXOTIC


def mutants(text, o, alpha, with_swaps=True):
    toks = o.tokens(text, keep_skipped=True)
    pieces = [t[1] for t in toks]
    idx = [i for i, t in enumerate(toks) if t[0] not in ("SPACE", "COMMENT")]
    out = []
    for n_, i in enumerate(idx):
        out.append(("del", "".join(pieces[:i] + pieces[i + 1:])))
        out.append(("trunc", "".join(pieces[:i])))
        for a in alpha:
            if a != pieces[i]:
                out.append(("sub", "".join(pieces[:i] + [a] + pieces[i + 1:])))
            glue = "" if (a in ("\n", "\t", "    ") or pieces[i] in ("\n", "\t", "    ")) else " "
            out.append(("ins", "".join(pieces[:i] + [a + glue] + pieces[i:])))
        if with_swaps and n_ + 1 < len(idx):
            j = idx[n_ + 1]
            if pieces[i] != pieces[j]:
                sw = list(pieces)
                sw[i], sw[j] = sw[j], sw[i]
                out.append(("swap", "".join(sw)))
    return out


def soups(prefix, alpha, k):
    out = []
    for n in range(1, k + 1):
        for combo in itertools.product(alpha, repeat=n):
            s = prefix
            prev = "\n"
            for a in combo:
                if prev not in ("\n", "\t", "    ") and a not in ("\n", "\t", "    "):
                    s += " "
                s += a
                prev = a
            out.append(("soup", s))
    return out


def build(ctx, o):
    alpha = alphabet(o)
    cases = {}
    per = collections.Counter()
    names = common.shard(sorted(BASES), ctx.seed)
    for name in names:
        for kind, t in mutants(BASES[name], o, alpha):
            if t not in cases:
                cases[t] = (kind, name)
                per[kind] += 1
    for ch in EXOTIC + ["é", "$", "\t", "#", "#1", "'", "{", "|", "=", "]", "  # x"]:
        for name, text in (("exotic-in-comment", "name p # a%sb\nversion 1.0\n# %s\nG | 0 #%s\n"), ("exotic-in-string", "name p\nversion 1.0\ntarget g (s=\"a%sb\")\nstr s = \"%s\"\nG(\"%s\") | 0\n"),
                           ("exotic-between-tokens", "name p\nversion 1.0\nG | 0%sH | 1\n%sK | 2\nL%s | 3\n")):
            for k in range(3):
                parts = text.split("%s")
                t = parts[0] + "".join((ch if i == k else ("x" if "string" in name or "comment" in name else " ")) + parts[i + 1] for i in range(3))
                if t not in cases:
                    cases[t] = (name, "exotic")
                    per[name] += 1
    # CRLF and CR variants of every base: deletions and truncations only (positions under other line-ending styles)
    for name in names:
        for nl, tag in (("\r\n", "crlf"), ("\r", "cr")):
            base = BASES[name].replace("\n", nl)
            for kind, t in mutants(base, o, [], with_swaps=False):
                if t not in cases:
                    cases[t] = (kind + "-" + tag, name)
                    per[kind + "-" + tag] += 1
    header = "name p\nversion 1.0\n\n"
    for nm in ("foo", "1", "x.y", "MeasureX", "name", "q0", "prog.xbb", "True", "pi", "1.0"):
        if nm not in cases:
            cases[nm] = ("file-name-as-text", "cwd")
            per["file-name-as-text"] += 1
    prefixes = [header, header + "G(", header + "G(1, ", header + "G | ", header + "int n = ", header + "float array A =\n    ",
                header + "for int i in ", header + "for int i in 0:2\n    ", "name p\nversion 1.0\ntarget g ", ""]
    small = [a for a in alpha if a in ("1", "1.0", "foo", "q0", "(", ")", "[", "]", "{", "}", ",", "=", "|", "+", "**", "\n", "    ", "int", "array", "for", "in", ":", '"s"', "True", "$", "sin", "name", "MeasureX", "é", ";")]
    for i, pf in enumerate(prefixes):
        if ctx.quick:
            ss = soups(pf, alpha if i < 2 else small, 2)
        else:
            ss = soups(pf, alpha, 2) + (soups(pf, small, 3) if i < 6 else [])
        for kind, t in ss:
            if t not in cases:
                cases[t] = (kind, "prefix%d" % i)
                per[kind] += 1
    if not ctx.quick:
        # double mutations on the three shortest bases
        for name in sorted(BASES, key=lambda n: len(BASES[n]))[:3]:
            firsts = [t for k, t in mutants(BASES[name], o, small, with_swaps=False) if k in ("del", "sub", "ins")]
            for t1 in firsts:
                for kind, t2 in mutants(t1, o, small, with_swaps=False):
                    if kind in ("del", "sub") and t2 not in cases:
                        cases[t2] = ("double", name)
                        per["double"] += 1
    return cases, per


def _chdir(d):
    os.chdir(d)
    return True


def make_cwd(ctx):
    """a working directory in which files named like single tokens exist and hold a valid program
    (a string passed to loads() is text, never a path)"""
    d = os.path.join(ctx.scratch, "c10cwd")
    os.makedirs(d, exist_ok=True)
    for nm in ("foo", "1", "x.y", "MeasureX", "name", "q0", "prog.xbb", "True", "pi", "1.0"):
        with open(os.path.join(d, nm), "w") as f:
            f.write(BASES["meta-plain"])
    return d


def run(ctx):
    os.chdir(make_cwd(ctx))      # the pool workers are forked from this process and inherit the directory
    o = oracle()
    V = common.Violations(keep=6)
    for name, text in BASES.items():
        if o.verdict(text)[0] != "OK":
            raise RuntimeError("harness: base %s is not a sentence of the current grammar" % name)
    cases, per = build(ctx, o)
    texts = common.shard(sorted(cases), ctx.seed)
    res = pool.pmap(_case, texts, chunk=100)
    n_ungram = 0
    outcomes = collections.Counter()
    for t, r in zip(texts, res):
        kind, src = cases[t]
        if r == "TIMEOUT":
            V.add("C10/no-outcome", {"text": t, "mode": "loads"}, "timeout")
        elif r is not None:
            outcomes[r[0]] += 1
            V.add("C10/" + r[0], {"text": t, "mode": "loads", "mutation": kind, "from": src}, r[1])
        else:
            outcomes["as-demanded"] += 1
    # load(path): every text with a non-ASCII character, the bases, and every k-th other text per mutation kind
    file_texts = [t for t in texts if any(ord(c) > 127 for c in t)]
    by_kind = collections.defaultdict(list)
    for t in texts:
        by_kind[cases[t]].append(t)
    for k, lst in sorted(by_kind.items()):
        file_texts.extend(lst[:: max(1, len(lst) // (3 if ctx.quick else 30))][:40])
    file_texts.extend(BASES[n].replace("G", "G # café comment\nG", 1) if "include" not in n else "" for n in sorted(BASES))
    file_texts = sorted(set(t for t in file_texts if t))
    d = os.path.join(ctx.scratch, "c10files")
    res = pool.pmap(_file_case, [(t, d) for t in file_texts], chunk=50)
    for t, r in zip(file_texts, res):
        if r == "TIMEOUT":
            V.add("C10/no-outcome", {"text": t, "mode": "load"}, "timeout")
        elif r is not None:
            V.add("C10/" + r[0], {"text": t, "mode": "load"}, r[1])
    ungram = sum(1 for t in texts if True)  # counted below properly
    n_ungram = 0
    n_gram = 0
    # cheap recount of grammatical / ungrammatical via the oracle on a parallel map would double the cost;
    # the workers' verdicts are not returned, so count here with the (fast) reference recogniser in parallel
    verdicts = pool.pmap(_verdict, texts, chunk=400)
    n_gram = sum(1 for v in verdicts if v)
    n_ungram = len(texts) - n_gram
    cov = {
        "evaluations": len(texts) + len(file_texts), "distinct_nontrivial": n_ungram,
        "rule": "all single-token deletions, truncations, substitutions (by one exemplar of each token type, a 4-space TAB and 8 junk characters), insertions and adjacent swaps of %d base scripts "
                "covering every rule context; all token soups of <=2 (thorough: <=3 over a reduced alphabet) alphabet members after %d valid prefixes; thorough adds double mutations of the 3 shortest bases. "
                "non-trivial = ungrammatical by the g4-derived Earley oracle; distinct by text" % (len(BASES), 10),
        "samples": [repr(t) for t in common.sample(texts, 6)], "exhaustive": True,
        "grammatical_mutants": n_gram, "ungrammatical": n_ungram, "by_mutation_kind": dict(per),
        "load_from_file_cases": len(file_texts), "outcome_classes": dict(outcomes), "alphabet_size": len(alphabet(o)),
    }
    return {"coverage": cov, "violations": V.records(),
            "assumptions": ["scripts use LF line ends only (ANTLR counts lines by \\n); other line ends belong to C18", "message wording is not inspected beyond the (line L:C) pattern"]}


def _verdict(text):
    return oracle().verdict(text)[0] == "OK"


def replay(case):
    if case.get("mode") == "load":
        import tempfile
        import shutil
        d = tempfile.mkdtemp(prefix="bbv-c10r-")
        try:
            r = _file_case((case["text"], d))
        finally:
            shutil.rmtree(d, ignore_errors=True)
        return (r is not None), repr(r).replace(d, "<TMP>")
    else:
        r = judge(case["text"])
    return (r is not None), repr(r)
