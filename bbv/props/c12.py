"""C12  Each load is independent of every earlier load in the process.

Explicit-state search over call histories on the real implementation:
 (1) pristine outcome of every menu script = its outcome in a fresh interpreter (separate process);
 (2) BFS from the import-time state: from every reachable canonical module state fire every event, compare
     its outcome with the pristine outcome, canonicalise the successor, de-duplicate, to the fixpoint;
 (3) independently of the state abstraction, ALL raw histories up to length 2 (thorough 3);
 (4) sharing: object graphs of the programs returned by consecutive loads must be disjoint in mutable
     objects, and mutating one must not change the other.
Every history runs in a fresh fork of a parent that imported the package but never called it.
"""
import collections
import hashlib
import itertools
import json
import os
import subprocess
import sys

from bbv.core import pool, observe, forked
from . import common

LEVEL = "model_checking"
H = "name a\nversion 1.0\n"


def menu(d):
    """name -> ('loads', text) | ('load', path).  `d` holds the include files."""
    inc = lambda f: 'include "%s"\n' % os.path.join(d, f)
    M = collections.OrderedDict()
    M["ok_n"] = ("loads", H + "int n = 5\nG(n) | 0\n")
    M["ok_n2"] = ("loads", H + "float n = 0.5\nstr x = \"s\"\nG(n, x) | 1\n")
    M["ok_x_arr"] = ("loads", H + "float x = 2.5\nfloat array A =\n    1, 2\nG(x, A) | 0\n")
    M["ok_arr_idx"] = ("loads", H + "float array A =\n    1.5, 2.5, 3.5\nint n = 2\nG(A[n], A[0]) | 0\n")
    M["ok_arr_idx2"] = ("loads", H + "int array A =\n    7, 8\n    9, 10\nint x = A[3]\nG(A[1]) | [A[0], x]\nfor int i in 0:2\n    H(A[i]) | i\n")
    M["bad_after_idx"] = ("loads", H + "float array A =\n    5, 6\nint n = 1\nG(A[n]) | 0\nG(u) | 0\n")
    M["bad_after_idx_loop"] = ("loads", H + "int array A =\n    4, 3, 2, 1\nfor int i in 0:4\n    G(A[i]) | A[i]\nG | 0.5\n")
    M["ok_tmpl"] = ("loads", H + "G({n}, {q}) | 0\n")
    M["ok_tmpl_globals"] = ("loads", H + "G({np}, {Symbol}+{sym}, k={os}) | 0\nH({copy}*2, {re}, {antlr4}, {var}) | 1\n")
    M["ok_arith"] = ("loads", H + "float y = 2*pi+sqrt(2)/3\nG(y**2, -y, q0*2) | 0\n")
    M["ok_tmpl_var"] = ("loads", H + "float x = {n}\nfloat array A[1, 2] =\n    {P}\nG(x, A) | 0\n")
    # whole-array templates whose generated element names (U_0_0 ...) coincide with a written parameter, or with those of
    # another array declared from the same placeholder; a parameter written many times
    M["ok_tmpl_arr_clash"] = ("loads", H + "G({U_0_0}) | 0\ncomplex array U[2, 2] =\n    {U}\nH(U) | 1\n")
    M["ok_tmpl_arr_twice"] = ("loads", H + "float array A[1, 2] =\n    {w}\nfloat array B[1, 2] =\n    {w}\nG(A, B, {w_0_1}, {w}) | 0\n")
    M["ok_tmpl_repeat"] = ("loads", H + "float x = {a}\nG({a}, {a}*2) | 0\nfor int i in 0:2\n    H({a}, k={b}) | i\n")
    M["ok_loop"] = ("loads", H + "for int i in 0:2\n    G(i) | i\n")
    M["ok_tdm"] = ("loads", H + "type tdm (k=1)\nint array p0 =\n    1, 2\nG(p0) | 0\n")
    M["ok_tdm_tmpl"] = ("loads", H + "type tdm\nfloat array p1 =\n    0.5, {n}\nG(p1, {q}) | [0, 1]\n")
    M["ok_plain"] = ("loads", H + "target g (shots=10)\nG | 0\nMeasureX | 0\nH(q0) | 1\n")
    M["ok_inc"] = ("loads", H + inc("sub.xbb") + "\nSub(x=2) | [3, 4]\nSub(x=3) | [5, 6]\n")
    M["ok_inc_file"] = ("load", os.path.join(d, "main_ok.xbb"))
    # an include given by a relative path in a script passed as text: resolved against the process working directory, which
    # every history (and every pristine run) sets to <d>/cwd0 at its start and which no load may change
    M["ok_inc_relcwd"] = ("loads", H + 'include "sub.xbb"\n\nSub(x=1) | [4, 5]\n')
    # empty brackets everywhere (what stands for "nothing" must not be one object handed to every program)
    M["ok_empty_brackets"] = ("loads", "name a\nversion 1.0\ntarget g ()\ntype t ()\nVac() | 0\nK() | [1, 2]\nfor int i in 0:2\n    L() | i\n")
    M["ok_inc_dup"] = ("loads", H + inc("sub.xbb") + inc("sub.xbb") + "\nSub(x=2) | [3, 4]\n")
    M["ok_inc_nested_dup"] = ("load", os.path.join(d, "main_nested_dup.xbb"))
    # the same functions at numerically equal arguments of different types (the type decides the result)
    M["ok_fn_real"] = ("loads", H + "G(sqrt(4.0), log(1.0), exp(1.0), arccos(1.0), sqrt(-4.0), arctan(0.0)) | 0\n")
    M["ok_fn_complex"] = ("loads", H + "G(sqrt(4+0j), log(1+0j), exp(1+0j), arccos(1+0j), sqrt(-4+0j), arctan(0j)) | 0\n")
    M["ok_fn_int"] = ("loads", H + "int k = 4\nG(sqrt(k), log(1), exp(1), arccos(1), sqrt(-k), arctan(0)) | 0\n")
    # scripts near resource limits: deep bracket nesting loads; a very long unbracketed chain exhausts the recursion limit
    M["ok_deep_brackets"] = ("loads", H + "G(" + "(" * 200 + "1" + ")" * 200 + ", 2) | 0\n")
    M["bad_long_chain"] = ("loads", H + "G(" + "+".join(["1"] * 1000) + ") | 0\n")
    M["ok_inc_chain"] = ("load", os.path.join(d, "main_chain.xbb"))       # the rewritten file is included only indirectly
    M["bad_lex"] = ("loads", H + "int n = 7\n$\n")
    M["bad_syntax"] = ("loads", H + "int n = 7\nG( | 0\n")
    # scripts whose evaluation goes through process-wide numeric settings: singular but valid values, failing divisions
    M["ok_singular"] = ("loads", H + "float x = 0.0\nG(log(x), x**-1, arctanh(1), 1/x) | 0\n")
    M["ok_overflow"] = ("loads", H + "G(exp(1000), 2.0**2000, 10**400/10**399) | 0\n")
    M["bad_div_str"] = ("loads", H + "str s = \"a\"\nfloat y = 1/s\n")
    M["bad_div_array"] = ("loads", H + "int array A =\n    1, 0\nG(1/A) | 0\n")
    M["bad_div_in_loop"] = ("loads", H + "for int i in [1, 0]\n    G(1/i) | i\nG(1/0.0, q0/0) | u\n")
    M["bad_first_token"] = ("loads", "foo name a\nversion 1.0\nG | 0\n")
    M["bad_empty"] = ("loads", "")
    M["bad_no_name"] = ("loads", "version 1.0\nG | 0\n")
    M["bad_last_token"] = ("loads", H + "G | 0\nH(1")
    M["bad_syntax_meta"] = ("loads", "name a\nversion\n")
    M["bad_undef"] = ("loads", H + "int n = 7\nG(u) | 0\n")
    M["bad_undef_tmpl"] = ("loads", H + "float x = {q}\nG({n}) | 0\nG(u) | 0\n")
    M["bad_loop"] = ("loads", H + "for int i in 0:3\n    G(u) | i\n")
    # a loop variable named like a variable declared before the loop, in a load that fails inside the loop / succeeds; and
    # scripts that use the name after their own loop (refused in a pristine process: the loop variable is gone, nothing else has that name)
    M["bad_loop_shadow"] = ("loads", H + "int i = 7\nfloat y = 0.5\nfor int i in 0:3\n    G(u) | i\n")
    M["bad_loop_shadow_list"] = ("loads", H + "float y = 7.5\nfor float y in [1.5, 2+1j]\n    G(y) | 0\n")
    M["ok_loop_shadow"] = ("loads", H + "int i = 7\nfor int i in 0:2\n    G(i) | i\nH(i) | 0\n")
    M["probe_after_loop_i"] = ("loads", H + "for int i in 0:2\n    G(i) | i\nH(i) | 0\n")
    M["probe_after_loop_y"] = ("loads", H + "for float y in [0.25, 0.75]\n    G(y) | 0\nfloat z = y\n")
    M["bad_loop2"] = ("loads", H + "int n = 1\nfor int i in [4, 0.5]\n    G | i\n")
    M["bad_arr"] = ("loads", H + "float x = 2.5\nfloat array A =\n    1, u\n")
    M["bad_type"] = ("loads", H + "float x = 2.5\nint m = 1+2j\n")
    M["bad_tdm"] = ("loads", H + "type tdm\nint array p0 =\n    1, 2\nG(u) | 0\n")
    M["bad_mode"] = ("loads", H + "int n = 9\nG | 1.5\n")
    M["bad_reserved"] = ("loads", H + "int i = 3\nfloat q0 = 1\n")
    # the same relative file names in two project directories with different contents, loaded by relative path
    # after changing into the directory (working directory as part of the history)
    M["rel_projA"] = ("load_rel", os.path.join(d, "projA"))
    M["rel_projB"] = ("load_rel", os.path.join(d, "projB"))
    # file-system events: rewrite the included file (the outcome of a load may depend on the files it includes *now*)
    M["fs_sub_v2"] = ("fs", "v2")
    M["fs_sub_v1"] = ("fs", "v1")
    M["bad_inc_call"] = ("loads", H + inc("sub.xbb") + "\nint n = 8\nSub(y=1) | [0, 1]\n")
    M["bad_inc_syntax"] = ("loads", H + inc("broken.xbb") + "\nG | 0\n")
    M["bad_inc_syntax_v"] = ("loads", H + inc("brokenv.xbb") + "\nG | 0\n")        # a broken file that the file-system events rewrite (another broken text)
    M["bad_load_v"] = ("load", os.path.join(d, "brokenv.xbb"))
    M["ok_meta_positional"] = ("loads", "name a\nversion 1.0\ntarget g (5, shots=1)\ntype t (2.5, \"x\")\nG | 0\n")      # ignored with a warning, at every load
    M["bad_inc_second"] = ("load", os.path.join(d, "main_second_bad.xbb"))
    M["bad_inc_missing"] = ("loads", H + inc("nonexistent.xbb") + "\nG | 0\n")
    M["probe_n"] = ("loads", H + "target g (shots=n)\nG | 0\n")
    M["probe_i"] = ("loads", H + "type t (k=i)\nG | 0\n")
    M["probe_x"] = ("loads", H + "target g (a=x)\nG | 0\n")
    M["probe_A"] = ("loads", H + "target g (a=A[0])\nG | 0\n")
    M["probe_p0"] = ("loads", H + "target g (a=p0)\nG | 0\n")
    M["probe_q"] = ("loads", H + "target g (a={q})\nG({r}) | 0\n")
    M["probe_body"] = ("loads", H + "G(n) | 0\nint n = 1\n")
    M["probe_body_i"] = ("loads", H + "G | i\n")
    M["probe_tdm_p0"] = ("loads", H + "type tdm\nG(p0) | 0\n")
    M["probe_plain_p0"] = ("loads", H + "float array p0 =\n    1.5, 2.5\nG(p0) | 0\n")
    M["probe_inc_name"] = ("loads", H + "Sub(x=1) | [0, 1]\n")
    return M


BROKENV = {"v1": "name Broken\nversion 1.0\n\nint n = 3\nG( | 0\n", "v2": "name Broken\nversion 1.0\n\nfloat longer_name = 3.5\nH(1, | 0\nK | 1\n"}
SUB = {"v1": "name Sub\nversion 1.0\n\nfloat n = 0.25\nA({x}, n) | 0\nB | [1, 0]\n",
       "v2": "name Sub\nversion 1.0\n\nfloat n = 0.75\nC(n, {x}) | 1\nB | [0, 1]\nD | 0\n"}
USES_SUB = ("ok_inc", "ok_inc_file", "bad_inc_call", "bad_inc_second", "ok_inc_dup", "ok_inc_nested_dup", "ok_inc_chain", "bad_inc_syntax_v", "bad_load_v")


def write_files(d):
    os.makedirs(d, exist_ok=True)
    w = lambda f, t: open(os.path.join(d, f), "w").write(t)
    w("sub.xbb", SUB["v1"])
    w("brokenv.xbb", BROKENV["v1"])
    w("broken.xbb", "name Broken\nversion 1.0\n\nint n = 3\nG( | 0\n")
    w("main_ok.xbb", H + 'include "sub.xbb"\n\nint n = 2\nSub(x=n) | [1, 2]\n')
    for proj, val, modes in (("projA", "0.5", "[1, 0]"), ("projB", "7", "[0, 1]")):
        os.makedirs(os.path.join(d, proj), exist_ok=True)
        w(proj + "/sub.xbb", "name Sub\nversion 1.0\n\nA({x}, %s) | 0\nB | %s\n" % (val, modes))
        w(proj + "/main.xbb", H + 'include "sub.xbb"\n\nSub(x=1) | [2, 3]\n')
    os.makedirs(os.path.join(d, "cwd0"), exist_ok=True)
    w("cwd0/sub.xbb", "name Sub\nversion 1.0\n\nW({x}, 0.125) | 1\nB | [1, 0]\n")
    w("lib_dup.xbb", "name Lib\nversion 1.0\ninclude \"sub.xbb\"\n\nSub(x=5) | [0, 1]\nL | 0\n")
    w("main_nested_dup.xbb", H + 'include "lib_dup.xbb"\ninclude "sub.xbb"\n\nLib | [2, 3]\nSub(x=1) | [4, 5]\n')
    w("main_chain.xbb", H + 'include "lib_dup.xbb"\n\nLib | [2, 3]\nG | 0\n')
    w("main_second_bad.xbb", H + 'include "sub.xbb"\ninclude "broken.xbb"\n\nSub(x=1) | [1, 2]\n')


def outcome(ev, d=None):
    """run one event in this process (no reset!) -> (digest string, short description, program); `d` (the
    directory of the include files) is replaced in messages so that outcomes are comparable between runs"""
    import blackbird
    kind, arg = ev
    if kind == "fs":
        return "fs:" + arg, "file system event " + arg, None
    import warnings
    with warnings.catch_warnings(record=True) as caught:
        warnings.simplefilter("always")        # what a load reports through the warnings machinery is part of its outcome
        try:
            if kind == "load_rel":
                prev = os.getcwd()
                os.chdir(arg)
                try:
                    p = blackbird.load("main.xbb")
                finally:
                    os.chdir(prev)      # the harness changed the directory, the harness changes it back
            else:
                p = blackbird.loads(arg) if kind == "loads" else blackbird.load(arg)
            c = ("OK", observe.prog_canon(p, exact=True))
        except Exception as e:  # noqa
            p = None
            c = ("EXC", type(e).__name__, str(e.args[0]) if e.args else str(e))
    ws = sorted((w.category.__name__, str(w.message)[:120]) for w in caught if (getattr(w.category, "__module__", "") or "").split(".")[0] in ("builtins", "blackbird") and issubclass(w.category, (SyntaxWarning, UserWarning, DeprecationWarning)) and "blackbird" in (w.filename or ""))
    c = c + (("warnings", tuple(ws)),)
    r = repr(c)
    if d:
        r = r.replace(d, "<D>")
    return hashlib.sha1(r.encode()).hexdigest()[:16], r[:300], p


def state_digest(d=None):
    r = repr(observe.module_state())
    if d:
        r = r.replace(d, "<D>")     # every history has its own copy of the include files
    return hashlib.sha1(r.encode()).hexdigest()[:16], r[:400]


def _exec_history(task):
    """each history works on its own copy of the include files, starting at version v1"""
    import shutil
    import tempfile
    d0, hist = task
    d = tempfile.mkdtemp(prefix="h", dir=d0)
    try:
        write_files(d)
        os.chdir(os.path.join(d, "cwd0"))
        M = menu(d)
        out = []
        ver = "v1"
        for k in hist:
            if M[k][0] == "fs":
                ver = M[k][1]
                open(os.path.join(d, "sub.xbb"), "w").write(SUB[ver])
                open(os.path.join(d, "brokenv.xbb"), "w").write(BROKENV[ver])
            dg, desc, _ = outcome(M[k], d)
            sd, sdesc = state_digest(d)
            out.append((dg, desc.replace(d, "<D>"), (hashlib.sha1((sd + ver).encode()).hexdigest()[:16], sdesc.replace(d, "<D>") + " files=" + ver), ver))
        return out
    finally:
        os.chdir("/")
        shutil.rmtree(d, ignore_errors=True)


def _hist(task):
    return forked.run_forked(_exec_history, task)


def _walk_mutables(obj, seen, out, path, depth=0):
    import numpy as np
    if depth > 8 or id(obj) in seen:
        return
    if isinstance(obj, (list, dict, set, np.ndarray)) or type(obj).__name__ in ("BlackbirdProgram", "RegRefTransform"):
        seen.add(id(obj))
        out[id(obj)] = path
    if isinstance(obj, dict):
        for k, v in obj.items():
            _walk_mutables(v, seen, out, path + "[%r]" % (k,), depth + 1)
    elif isinstance(obj, (list, tuple, set)):
        for i, v in enumerate(obj):
            _walk_mutables(v, seen, out, path + "[%d]" % i, depth + 1)
    elif isinstance(obj, np.ndarray):
        if obj.dtype == object:
            for i, v in enumerate(obj.flatten().tolist()):
                _walk_mutables(v, seen, out, path + "<%d>" % i, depth + 1)
    elif type(obj).__name__ in ("BlackbirdProgram", "RegRefTransform"):
        for k, v in vars(obj).items():
            _walk_mutables(v, seen, out, path + "." + k, depth + 1)


def _exec_sharing(task):
    """two consecutive successful loads: no shared mutable objects; mutating one leaves the other unchanged"""
    import numpy as np
    import tempfile
    d0, k1, k2 = task
    d = tempfile.mkdtemp(prefix="s", dir=d0)
    write_files(d)
    os.chdir(os.path.join(d, "cwd0"))
    M = menu(d)
    _, _, p1 = outcome(M[k1], d)
    _, _, p2 = outcome(M[k2], d)
    if p1 is None or p2 is None:
        return None
    a, b = {}, {}
    _walk_mutables(p1, set(), a, "P1")
    _walk_mutables(p2, set(), b, "P2")
    shared = sorted(set(a) & set(b))
    if shared:
        return ("shared-mutable-object", "%s is %s" % (a[shared[0]], b[shared[0]]))
    before = repr(observe.prog_canon(p2))
    # mutate every mutable leaf of p1
    for op in p1.operations:
        op["modes"].append(99)
        for v in list(op.get("args", [])) + list(op.get("kwargs", {}).values()):
            if isinstance(v, list):
                v.append("mut")
            elif isinstance(v, np.ndarray) and v.size:
                v.flat[0] = 77
        op.setdefault("args", []).append("mut")
        op.setdefault("kwargs", {})["mut"] = 1
    p1.operations.append({"op": "Mut", "modes": [1]})
    p1.target["options"]["mut"] = 1
    p1.programtype["options"]["mut"] = 1
    p1.modes.add(98)
    for v in p1.variables.values():
        if isinstance(v, np.ndarray) and v.size:
            v.flat[0] = 55
    p1.variables["mut"] = 1
    after = repr(observe.prog_canon(p2))
    if before != after:
        return ("mutation-leaks", "mutating the first program changed the second")
    # a third load of k2 must still equal the pristine-in-this-process second load
    dg3, _, p3 = outcome(M[k2], d)
    if p3 is None or repr(observe.prog_canon(p3)) != before:
        return ("mutation-leaks-into-later-load", "load after mutating earlier results differs")
    return None


def _sharing(task):
    return forked.run_forked(_exec_sharing, task)


PRISTINE = r"""
import sys, json, os, warnings
warnings.simplefilter('ignore')
sys.path.insert(0, %(verif)r)
from bbv.props import c12
print(json.dumps(c12.pristine_outcome(%(d)r, %(k)r, %(ver)r)))
"""


def pristine_outcome(d0, k, ver):
    import shutil
    import tempfile
    d = tempfile.mkdtemp(prefix="p", dir=d0)
    try:
        write_files(d)
        open(os.path.join(d, "sub.xbb"), "w").write(SUB[ver])
        open(os.path.join(d, "brokenv.xbb"), "w").write(BROKENV[ver])
        os.chdir(os.path.join(d, "cwd0"))
        dg, desc, _ = outcome(menu(d)[k], d)
        return [dg, desc]
    finally:
        os.chdir("/")
        shutil.rmtree(d, ignore_errors=True)


def _pristine(task):
    d, k, ver, verif = task
    code = PRISTINE % {"verif": verif, "d": d, "k": k, "ver": ver}
    r = subprocess.run([sys.executable, "-c", code], capture_output=True, text=True, env=os.environ)
    if r.returncode != 0:
        raise RuntimeError("pristine run of %s failed: %s" % (k, r.stderr[-500:]))
    return json.loads(r.stdout.strip().split("\n")[-1])


def warm_antlr(M):
    """warm ANTLR's DFA / prediction caches using the generated classes only (no blackbird evaluator code)"""
    import antlr4
    from blackbird.blackbirdLexer import blackbirdLexer
    from blackbird.blackbirdParser import blackbirdParser
    for kind, arg in M.values():
        try:
            text = arg if kind == "loads" else open(arg if kind == "load" else os.path.join(arg, "main.xbb")).read()
            ps = blackbirdParser(antlr4.CommonTokenStream(blackbirdLexer(antlr4.InputStream(text))))
            ps.removeErrorListeners()
            ps.start()
        except Exception:  # noqa
            pass


def run(ctx):
    d = os.path.join(ctx.scratch, "c12")
    write_files(d)
    M = menu(d)
    keys = list(M)
    V = common.Violations(keep=6)
    # (1) pristine outcomes, fresh interpreters (cold ANTLR caches)
    pk = [(k, "v1") for k in keys if M[k][0] != "fs"] + [(k, "v2") for k in USES_SUB]
    PRV = dict(zip(pk, pool.pmap(_pristine, [(d, k, ver, ctx.verif) for k, ver in pk], chunk=1)))
    pr = lambda k, ver: PRV[(k, ver if k in USES_SUB else "v1")]
    PR = {k: PRV[(k, "v1")] for k in keys if M[k][0] != "fs"}
    warm_antlr(M)
    # sanity: the import-time state of the parent
    s0 = state_digest()
    transitions = 0
    nontrivial = 0
    # (2) BFS over canonical states
    seen = {s0[0]: ((), s0[1])}
    frontier = [()]
    succ = collections.defaultdict(set)
    while frontier:
        tasks = [(d, h + (k,)) for h in frontier for k in keys]
        res = pool.pmap(_hist, tasks, chunk=4)
        nxt = []
        for (_, hist), r in zip(tasks, res):
            if r == "TIMEOUT" or r[0] != "ok":
                V.add("C12/no-outcome", {"history": list(hist)}, repr(r)[:300])
                continue
            steps = r[1]
            transitions += 1
            k = hist[-1]
            dg, desc, (sd, sdesc), ver = steps[-1]
            src = steps[-2][2][0] if len(steps) > 1 else None
            succ[src].add(sd)
            if sd != src:
                nontrivial += 1
            if M[k][0] != "fs" and dg != pr(k, ver)[0]:
                V.add("C12/outcome-depends-on-history:%s" % classify(hist, k), {"history": list(hist)}, "after %r, %s gives %s ; pristine (files %s) %s" % (list(hist[:-1]), k, desc[:160], ver, pr(k, ver)[1][:160]))
            if sd not in seen:
                seen[sd] = (hist, sdesc)
                nxt.append(hist)
        frontier = nxt
        if len(seen) > 400:
            V.add("C12/state-space-does-not-close", {"history": list(frontier[0]) if frontier else []}, "more than 400 canonical states")
            break
    # (3) all raw histories up to length L (no de-duplication)
    L = 2 if ctx.quick else 3
    raw = [h for n in range(1, L + 1) for h in itertools.product(keys, repeat=n)] if L == 2 else \
          [h for h in itertools.product(keys, repeat=2)] + [h for h in itertools.product(keys, repeat=3)]
    # (3') repetition: the same call again and again, and two calls alternating - a counter, a cache or a table that
    # fills up a little with every call only shows after many of them
    R = 24 if ctx.quick else 60
    nonfs = [k for k in keys if M[k][0] != "fs"]
    reps = [(k,) * R for k in nonfs]
    alt = [("ok_inc_dup", "ok_inc"), ("ok_inc_nested_dup", "bad_inc_syntax"), ("bad_inc_missing", "ok_inc_file"), ("fs_sub_v2", "ok_inc_dup", "fs_sub_v1", "ok_inc_dup"),
           ("ok_fn_real", "ok_fn_complex", "ok_fn_int"), ("ok_tmpl", "bad_undef_tmpl"), ("ok_tdm", "probe_plain_p0"), ("rel_projA", "rel_projB"), ("bad_syntax", "ok_plain"), ("bad_loop", "ok_loop"), ("ok_inc_chain", "fs_sub_v2", "ok_inc_chain", "fs_sub_v1"), ("bad_long_chain", "ok_deep_brackets", "bad_long_chain")]
    reps += [tuple(a) * (R // len(a)) for a in alt]
    # every script that reads files: loaded, the files rewritten, loaded again, rewritten back, loaded again (what a
    # process remembers under a file NAME - in the package or in a library below it - is not what the file holds now)
    reps += [(k, "fs_sub_v2", k, "fs_sub_v1", k, "fs_sub_v2", k) for k in USES_SUB]
    raw = raw + reps
    raw = common.shard(raw, ctx.seed)
    res = pool.pmap(_hist, [(d, h) for h in raw], chunk=8)
    raw_steps = 0
    outcomes_per_script = collections.defaultdict(set)
    for h, r in zip(raw, res):
        if r == "TIMEOUT" or r[0] != "ok":
            V.add("C12/no-outcome", {"history": list(h)}, repr(r)[:300])
            continue
        for i, (dg, desc, _, ver) in enumerate(r[1]):
            raw_steps += 1
            if M[h[i]][0] == "fs":
                continue
            outcomes_per_script[(h[i], ver if h[i] in USES_SUB else "v1")].add(dg)
            if dg != pr(h[i], ver)[0]:
                V.add("C12/outcome-depends-on-history:%s" % classify(h[:i + 1], h[i]), {"history": list(h[:i + 1])}, "after %r, %s gives %s ; pristine (files %s) %s" % (list(h[:i]), h[i], desc[:160], ver, pr(h[i], ver)[1][:160]))
    # (4) sharing between programs returned by consecutive loads
    oks = [k for k in keys if k in PR and PR[k][1].startswith("('OK'")]
    pairs = [(d, a, b) for a in oks for b in oks]
    res = pool.pmap(_sharing, pairs, chunk=4)
    for (_, a, b), r in zip(pairs, res):
        if r == "TIMEOUT" or r[0] != "ok":
            V.add("C12/no-outcome", {"pair": [a, b]}, repr(r)[:300])
        elif r[1] is not None:
            V.add("C12/" + r[1][0], {"pair": [a, b]}, "%s then %s: %s" % (a, b, r[1][1]))
    cov = {"states": len(seen), "transitions": transitions + raw_steps, "traces_validated_against_impl": len(raw) + transitions + len(pairs),
           "samples": [list(h) for h in common.sample(raw, 4)] + [{"state": v[1][:200], "reached_via": list(v[0])} for v in list(seen.values())[:4]],
           "bfs": {"states": len(seen), "transitions": transitions, "state_changing_transitions": nontrivial, "events": len(keys)},
           "raw_histories": {"max_length": L, "histories": len(raw) - len(reps), "steps_compared": raw_steps},
           "repetition_histories": {"each_event_repeated": R, "alternations": [list(a) for a in alt], "histories": len(reps)}, "sharing_pairs": len(pairs),
           "distinct_outcomes_per_script_max": max(len(v) for v in outcomes_per_script.values()) if outcomes_per_script else 0,
           "pristine_outcomes": {"%s@%s" % k: v[1][:60] for k, v in PRV.items()},
           "evaluations": transitions + raw_steps + len(pairs), "distinct_nontrivial": len(raw),
           "rule": "states = canonical content of every module-level mutable object of blackbird.* after a history; transitions = real load/loads calls, each history executed in a fresh fork of a never-used import; "
                   "every transition's outcome is compared with the script's outcome in a fresh interpreter", "exhaustive": True}
    return {"coverage": cov, "violations": V.records(),
            "assumptions": ["ANTLR DFA/prediction caches are semantically transparent (pristine outcomes are computed with cold caches, histories with warm ones, and they agree)",
                            "each history starts from the import-time state obtained by fork, so module state introduced by a change is covered without being named"]}


def classify(hist, k):
    if k.startswith("probe_") and len(hist) >= 2:
        return "stale-table-read-by-metadata" if k in ("probe_n", "probe_i", "probe_x", "probe_A", "probe_p0", "probe_q") else "stale-table:" + k
    return k


def replay(case):
    import tempfile
    import shutil
    d = tempfile.mkdtemp(prefix="bbv-c12r-")
    try:
        write_files(d)
        if "pair" in case:
            r = forked.run_forked(_exec_sharing, (d, case["pair"][0], case["pair"][1]))
            return (r[0] == "ok" and r[1] is not None), repr(r)[:300]
        hist = tuple(case["history"])
        if not hist:
            return False, "empty"
        r = forked.run_forked(_exec_history, (d, hist))
        if r[0] != "ok":
            return True, repr(r)[:300]
        dg, desc, _, ver = r[1][-1]
        if menu(d)[hist[-1]][0] == "fs":
            return False, "fs event"
        pr = _pristine((d, hist[-1], ver if hist[-1] in USES_SUB else "v1", os.path.dirname(os.path.dirname(os.path.dirname(os.path.abspath(__file__))))))
        return (dg != pr[0]), "history outcome %s ; pristine %s" % (desc[:150], pr[1][:150])
    finally:
        shutil.rmtree(d, ignore_errors=True)
