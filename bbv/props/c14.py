"""C14  Shipped lexers and parsers recognise exactly the language of blackbird.g4.

(a) artefact identity (8 ATN copies, vocabularies, rule skeletons, listener/visitor method sets)
(b) lexer:  product g4-NFA x lexer ATN over all reachable states (complete for all strings) + replay of
            every access string on the real blackbirdLexer
(c) parser: per-rule product EBNF x ATN sub-automaton   (d) precedence numbers
(e) real parser verdicts on all bounded sentences per rule and all single-token mutations of the
    shortest sentence through each rule, against the Earley recogniser derived from the .g4
"""
import collections
import itertools
import os
import re

from bbv.core import pool
from bbv.g4 import atn as art, product, reader, sentences, syntax
from . import common

LEVEL = "model_checking"
REPLAYABLE = True

_oracle = None


def oracle():
    global _oracle
    if _oracle is None:
        _oracle = syntax.Oracle()
    return _oracle


def real_tokens(text):
    import antlr4
    from blackbird.blackbirdLexer import blackbirdLexer
    lx = blackbirdLexer(antlr4.InputStream(text))
    lx.removeErrorListeners()
    out = []
    while True:
        t = lx.nextToken()
        if t.type == -1:
            break
        out.append((blackbirdLexer.symbolicNames[t.type], t.text, t.start))
    return out


def _lex_case(text):
    try:
        a = real_tokens(text)
    except Exception as e:  # noqa
        a = "exc:" + common.exc_sig(e)
    b = oracle().tokens(text)
    return None if a == b else (repr(a)[:300], repr(b)[:300])


def _interleave_case(pair):
    """two lexers alive at once, advanced in lock step; then two parsers built before either is run: every
    object must behave as it does alone (the verdict on a string does not depend on what else is being read)"""
    import antlr4
    from blackbird.blackbirdLexer import blackbirdLexer
    from blackbird.blackbirdParser import blackbirdParser
    t1, t2 = pair
    o = oracle()
    try:
        la = blackbirdLexer(antlr4.InputStream(t1))
        la.removeErrorListeners()
        out = {0: [], 1: []}
        first = la.nextToken()
        lb = blackbirdLexer(antlr4.InputStream(t2))
        lb.removeErrorListeners()
        lex = [la, lb]
        done = [first.type == -1, False]
        if not done[0]:
            out[0].append((blackbirdLexer.symbolicNames[first.type], first.text, first.start))
        turn = 1
        while not all(done):
            if not done[turn]:
                t = lex[turn].nextToken()
                if t.type == -1:
                    done[turn] = True
                else:
                    out[turn].append((blackbirdLexer.symbolicNames[t.type], t.text, t.start))
            turn = 1 - turn
    except Exception as e:  # noqa
        return ("interleaved-lexers-raise", common.exc_sig(e))
    for k, t in ((0, t1), (1, t2)):
        if out[k] != o.tokens(t):
            return ("interleaved-lexers", "lexer %d of 2 on %r gives %r, alone/grammar %r" % (k + 1, t, out[k][:8], o.tokens(t)[:8]))
    # parsers built first, run afterwards (token streams fetch lazily), in both orders
    for order in ((0, 1), (1, 0)):
        ps = []
        for t in (t1, t2):
            lx = blackbirdLexer(antlr4.InputStream(t))
            lx.removeErrorListeners()
            pr = blackbirdParser(antlr4.CommonTokenStream(lx))
            pr.removeErrorListeners()
            ps.append(pr)
        for k in order:
            t = (t1, t2)[k]
            try:
                ps[k].start()
                ok = ps[k].getNumberOfSyntaxErrors() == 0
            except Exception as e:  # noqa
                return ("prebuilt-parsers-raise", common.exc_sig(e))
            if ok != (o.verdict(t)[0] == "OK"):
                return ("prebuilt-parsers", "parser built before another one and run %s: accepts=%r on %r, grammar says %r" % ("first" if order[0] == k else "second", ok, t[:80], o.verdict(t)[0]))
    return None


def long_sentences():
    Hh = "name a\nversion 1.0\n"
    L_ = collections.OrderedDict()
    for k in (60, 130, 300, 700):
        L_["%d statements" % k] = Hh + "".join("Rgate(0.1) | %d\n" % (i % 7) for i in range(k))
    L_["300 statements with several arguments"] = Hh + "".join("G(%d, 0.5*%d, k=[1, 2], l=-pi/2) | [%d, %d]\n" % (i, i, i, i + 1) for i in range(300))
    L_["400 declarations"] = Hh + "".join("float x%d = %d/3+1\n" % (i, i) for i in range(400)) + "G(x7) | 0\n"
    L_["150 loops"] = Hh + "".join("for int i in 0:%d\n    G(i) | i\n    H(i+1, k=i) | [i, i+1]\n" % (i % 5 + 1) for i in range(150))
    for n_ in (18, 30):
        L_["%dx%d array" % (n_, n_)] = Hh + "float array A =\n" + "".join("    " + ", ".join("%d.5" % (r_ * n_ + c_) for c_ in range(n_)) + "\n" for r_ in range(n_)) + "G(A) | 0\n"
    L_["sum of 250 terms"] = Hh + "G(" + "+".join(["1"] * 250) + ") | 0\n"
    L_["product of 300 factors"] = Hh + "float y = " + "*".join(["2", "0.5"] * 150) + "\nG(y) | 0\n"
    L_["500 arguments"] = Hh + "G(" + ", ".join(str(i) for i in range(500)) + ") | 0\n"
    L_["500 keyword arguments"] = Hh + "G(" + ", ".join("k%d=%d" % (i, i) for i in range(500)) + ") | 0\n"
    L_["list of 500 elements"] = Hh + "G(k=[" + ", ".join(str(i) for i in range(500)) + "]) | 0\n"
    L_["500 modes"] = Hh + "G | [" + ", ".join(str(i) for i in range(500)) + "]\n"
    L_["80 nested brackets"] = Hh + "G(" + "(" * 80 + "1" + ")" * 80 + ") | 0\n"
    L_["60 nested functions"] = Hh + "G(" + "sqrt(" * 60 + "2" + ")" * 60 + ") | 0\n"
    L_["200 metadata options"] = "name a\nversion 1.0\ntarget g (" + ", ".join("o%d=%d" % (i, i) for i in range(200)) + ")\nG | 0\n"
    L_["300 statements, last one broken"] = Hh + "".join("Rgate(0.1) | %d\n" % (i % 7) for i in range(299)) + "Rgate(0.1 | 0\n"
    return L_


def _parse_case(text):
    o = oracle()
    m = o.verdict(text)
    r = syntax.syntax_stage(text)
    if m[0] == "OK":
        return None if r[0] == "OK" else ("grammatical-but-rejected", r)
    if r[0] == "OK":
        return ("ungrammatical-but-accepted", m)
    return None   # the kind and position of the error are C10's subject


# ------------------------------------------------------------------------------------ (a)

DIFFERENT_COPIES = []


def _products_on_copy(what, serialised):
    """run the lexer / parser products on an ATN copy (C++ or .interp) that differs from the imported one"""
    from antlr4.atn.ATNDeserializer import ATNDeserializer
    from blackbird.blackbirdLexer import blackbirdLexer as BL
    from blackbird.blackbirdParser import blackbirdParser as BP
    atn = ATNDeserializer().deserialize("".join(chr(x) for x in serialised))
    base = BL if what == "lexer" else BP
    shim = type("Shim", (), {"atn": atn, "ruleNames": base.ruleNames, "symbolicNames": base.symbolicNames, "literalNames": base.literalNames})
    o = oracle()
    if what == "lexer":
        lp = product.lexer_product(shim, o.L)
        return list(lp["mismatches"])
    pp = product.parser_product(shim, o.parser_rules)
    out = list(pp["mismatches"])
    for pc in product.precedence_check(shim, o.parser_rules):
        if pc["expect_preds"] != pc["got_preds"] or pc["expect_calls"] != pc["got_calls"]:
            out.append(("precedence", pc["rule"]))
    for rn, exp_t, got_t in product.operator_table(shim, o.parser_rules):
        if exp_t != got_t:
            out.append(("operator-table", rn))
    return out


def artefact_identity():
    P = art.path
    del DIFFERENT_COPIES[:]
    bad = []
    n = 0
    files = {
        "parser": [("py", lambda: art.py_atn_from_source(P("blackbird_python/blackbird/blackbirdParser.py"))),
                   ("py-imported", lambda: art.py_atn_imported("blackbird.blackbirdParser")),
                   ("cpp", lambda: art.cpp_atn(P("blackbird_cpp/blackbirdParser.cpp"))),
                   ("py-interp", lambda: art.interp_atn(P("blackbird_python/blackbird/blackbird.interp"))),
                   ("cpp-interp", lambda: art.interp_atn(P("blackbird_cpp/blackbird.interp")))],
        "lexer": [("py", lambda: art.py_atn_from_source(P("blackbird_python/blackbird/blackbirdLexer.py"))),
                  ("py-imported", lambda: art.py_atn_imported("blackbird.blackbirdLexer")),
                  ("cpp", lambda: art.cpp_atn(P("blackbird_cpp/blackbirdLexer.cpp"))),
                  ("py-interp", lambda: art.interp_atn(P("blackbird_python/blackbird/blackbirdLexer.interp"))),
                  ("cpp-interp", lambda: art.interp_atn(P("blackbird_cpp/blackbirdLexer.interp")))],
    }
    for what, lst in files.items():
        ref = None
        for tag, f in lst:
            n += 1
            try:
                v = f()
            except Exception as e:  # noqa
                bad.append(("atn-unreadable", what, tag, common.exc_sig(e)))
                continue
            if ref is None:
                ref = (tag, v)
            elif v != ref[1]:
                # the property demands identical embedded automata, so any difference is reported; the differing copy
                # is also put through the same products, so that the report says whether it recognises another language
                idx = next((i for i, (x, y) in enumerate(zip(v, ref[1])) if x != y), min(len(v), len(ref[1])))
                where = "first difference from %s at element %d (lengths %d / %d)" % (ref[0], idx, len(v), len(ref[1]))
                DIFFERENT_COPIES.append((what, tag))
                try:
                    mism = _products_on_copy(what, v)
                except Exception as e:  # noqa
                    bad.append(("atn-differs-and-unreadable", what, tag, where, common.exc_sig(e)))
                    continue
                bad.append(("atn-differs", what, tag, where, ("recognises a different language, product: " + repr(mism[:2])[:300]) if mism else "recognises the same language (products agree)"))
    # vocabularies
    _, lx, ps = reader.read()
    g4_tokens = [r.name for r in lx if not r.fragment]
    g4_rules = [r.name for r in ps]
    from blackbird.blackbirdParser import blackbirdParser as BP
    from blackbird.blackbirdLexer import blackbirdLexer as BL
    lit_of = {}
    for r in lx:
        if not r.fragment and len(r.body.alts) == 1 and len(r.body.alts[0].els) == 1 and r.body.alts[0].els[0].kind == "lit" and not r.body.alts[0].cmds:
            lit_of[r.name] = r.body.alts[0].els[0].text
    want_sym = ["<INVALID>"] + g4_tokens
    want_lit = ["<INVALID>"] + [lit_of.get(t, "<INVALID>") for t in g4_tokens]
    while want_lit and want_lit[-1] == "<INVALID>":
        want_lit.pop()

    def cmp(tag, got, want):
        nonlocal n
        n += 1
        if list(got) != list(want):
            bad.append(("vocabulary", tag, "got %r" % (list(got)[:70],), "want %r" % (list(want)[:70],)))
    cmp("py parser symbolicNames", BP.symbolicNames, want_sym)
    cmp("py lexer symbolicNames", BL.symbolicNames, want_sym)
    cmp("py parser literalNames", BP.literalNames, want_lit)
    cmp("py lexer literalNames", BL.literalNames, ["<INVALID>"] + [x for x in want_lit if x != "<INVALID>"])  # the generated Python lexer lists literals without gaps
    cmp("py parser ruleNames", BP.ruleNames, g4_rules)
    cmp("py lexer ruleNames", BL.ruleNames, [r.name for r in lx if not r.fragment] if False else _lexer_rule_names(lx))
    for d, cls_files in (("blackbird_cpp", (("blackbirdParser.cpp", "blackbirdParser"), ("blackbirdLexer.cpp", "blackbirdLexer"))),):
        for fn, cls in cls_files:
            try:
                cmp("cpp %s _symbolicNames" % cls, art.cpp_name_table(P(d, fn), cls, "_symbolicNames"), [""] + g4_tokens)
                cmp("cpp %s _literalNames" % cls, art.cpp_name_table(P(d, fn), cls, "_literalNames"),
                    [""] + [lit_of.get(t, "") for t in g4_tokens][:len(want_lit) - 1])
                cmp("cpp %s _ruleNames" % cls, art.cpp_name_table(P(d, fn), cls, "_ruleNames"), g4_rules if cls == "blackbirdParser" else _lexer_rule_names(lx))
            except Exception as e:  # noqa
                bad.append(("vocabulary-unreadable", fn, common.exc_sig(e)))
    want_tok = [(t, i + 1) for i, t in enumerate(g4_tokens)] + [(lit_of[t], i + 1) for i, t in enumerate(g4_tokens) if t in lit_of]
    for f in ("blackbird_python/blackbird/blackbird.tokens", "blackbird_python/blackbird/blackbirdLexer.tokens",
              "blackbird_cpp/blackbird.tokens", "blackbird_cpp/blackbirdLexer.tokens"):
        try:
            cmp(f, art.tokens_file(P(f)), want_tok)
        except Exception as e:  # noqa
            bad.append(("tokens-unreadable", f, common.exc_sig(e)))
    for f, islex in (("blackbird_python/blackbird/blackbird.interp", False), ("blackbird_cpp/blackbird.interp", False),
                     ("blackbird_python/blackbird/blackbirdLexer.interp", True), ("blackbird_cpp/blackbirdLexer.interp", True)):
        try:
            nm = art.interp_names(P(f))
            cmp(f + " symbolic", [x for x in nm["symbolic"]], [None] + g4_tokens)
            cmp(f + " literal", [x for x in nm["literal"]], [None] + [lit_of.get(t) for t in g4_tokens])
            cmp(f + " rules", nm["rules"], _lexer_rule_names(lx) if islex else g4_rules)
        except Exception as e:  # noqa
            bad.append(("interp-unreadable", f, common.exc_sig(e)))
    # rule-function skeletons, Python vs C++
    try:
        ps_ = art.normalise_skeleton(art.py_parser_skeleton(P("blackbird_python/blackbird/blackbirdParser.py")), g4_rules)
        cs_ = art.normalise_skeleton(art.cpp_parser_skeleton(P("blackbird_cpp/blackbirdParser.cpp")), g4_rules)
        for r in g4_rules:
            n += 1
            if ps_.get(r) != cs_.get(r) or not ps_.get(r):
                bad.append(("skeleton-differs", r, repr(ps_.get(r))[:200], repr(cs_.get(r))[:200]))
    except Exception as e:  # noqa
        bad.append(("skeleton-unreadable", common.exc_sig(e)))
    # control flow of the C++ rule functions: the generated code selects one alternative per decision with a `switch`;
    # every `case ...: {` block must leave the switch (`break;`, `return`, `throw`) - an alternative that falls through
    # into the next one parses another language although every automaton, table and state number is unchanged
    try:
        for fn in ("blackbird_cpp/blackbirdParser.cpp", "blackbird_cpp/blackbirdLexer.cpp"):
            lines = open(P(fn), encoding="utf-8").read().split("\n")
            for i, ln in enumerate(lines):
                m = re.match(r"^(\s*)(case [^{}]*|default)\s*:\s*\{\s*$", ln)
                if not m:
                    continue
                n += 1
                depth, j = 1, None       # matching brace by counting (the generated code indents `(...)+` loops unevenly)
                for k in range(i + 1, len(lines)):
                    code = re.sub(r'"(?:\\.|[^"\\])*"|\'(?:\\.|[^\'\\])\'', "", lines[k])
                    depth += code.count("{") - code.count("}")
                    if depth <= 0:
                        j = k
                        break
                if j is None:
                    bad.append(("cpp-control-flow", fn, "line %d: block of `%s` is never closed" % (i + 1, ln.strip())))
                    continue
                last = next((lines[k].strip() for k in range(j - 1, i, -1) if lines[k].strip()), "")
                if not (last == "break;" or last.startswith("return") or last.startswith("throw") or last == "continue;"):
                    bad.append(("cpp-control-flow", fn, "line %d: alternative `%s` does not end in break/return/throw (last statement `%s`): it falls through into the next alternative" % (i + 1, ln.strip(), last[:60])))
    except Exception as e:  # noqa
        bad.append(("cpp-control-flow-unreadable", common.exc_sig(e)))
    # listener / visitor method sets = rule names + label names
    labels = [a.label for r in ps for a in r.body.alts if a.label]
    ctxs = [r[0].upper() + r[1:] for r in g4_rules if not any(a.label for rr in ps if rr.name == r for a in rr.body.alts)] + labels
    want_enter = sorted("enter" + c for c in ctxs) + sorted("exit" + c for c in ctxs)
    src = open(P("blackbird_python/blackbird/blackbirdListener.py"), encoding="utf-8").read()
    cmp("py listener methods", sorted(re.findall(r"def ((?:enter|exit)\w+)\(", src)), sorted(want_enter))
    for f in ("blackbird_cpp/blackbirdVisitor.h", "blackbird_cpp/blackbirdBaseVisitor.h"):
        src = open(P(f), encoding="utf-8").read()
        cmp(f + " visit methods", sorted(set(re.findall(r"\bvisit([A-Z]\w*)\(", src)) - {"Children"}), sorted(ctxs))
    return n, bad


def _lexer_rule_names(lx):
    return [r.name for r in lx]


# ------------------------------------------------------------------------------------ (e)

def mutations(tokens, alphabet):
    """all single-token deletions, truncations, substitutions, insertions and adjacent swaps"""
    out = []
    n = len(tokens)
    for i in range(n):
        out.append(tokens[:i] + tokens[i + 1:])
        out.append(tokens[:i])
        for a in alphabet:
            if a != tokens[i]:
                out.append(tokens[:i] + (a,) + tokens[i + 1:])
            out.append(tokens[:i] + (a,) + tokens[i:])
        if i + 1 < n and tokens[i] != tokens[i + 1]:
            out.append(tokens[:i] + (tokens[i + 1], tokens[i]) + tokens[i + 2:])
    for a in alphabet:
        out.append(tokens + (a,))
    return out


def run(ctx):
    V = common.Violations(keep=5)
    cov = {}
    # (a)
    n_a, bad = artefact_identity()
    for b in bad:
        V.add("C14/artefact:" + b[0] + ":" + str(b[1]), {"part": "a", "what": list(map(str, b))}, " | ".join(map(str, b))[:400])
    cov["artefact_comparisons"] = n_a
    # (b)
    from blackbird.blackbirdLexer import blackbirdLexer as BL
    from blackbird.blackbirdParser import blackbirdParser as BP
    o = oracle()
    lp = product.lexer_product(BL, o.L)
    for m in lp["mismatches"]:
        V.add("C14/lexer-product:" + str(m[0]), {"part": "b", "string": m[1] if m[0] == "label" else None, "what": repr(m)[:300]}, repr(m)[:300])
    if lp["g4_tokens"] != list(BL.symbolicNames[1:]):
        V.add("C14/lexer-token-order", {"part": "b", "what": "token order"}, "token rule order of the .g4 differs from the generated lexer")
    suffixes = ["", " ", "x", "1", "\n", ",2", "j"]
    texts = []
    for w in lp["access_strings"]:
        for suf in suffixes:
            texts.append(w + suf)
    ex = [sentences.EXEMPLARS[t] for t in lp["g4_tokens"] if t in sentences.EXEMPLARS]
    for a_, b_ in itertools.product(ex, ex):
        texts.append(a_ + b_)
        texts.append(a_ + " " + b_)
    # a token between two others: every exemplar between every pair of (punctuation, keyword, name, number, line break)
    # neighbours, glued and with blanks - what a token is must not depend on the tokens around it beyond longest match
    nb = [sentences.EXEMPLARS[t] for t in ("LBRAC", "COMMA", "ASSIGN", "RBRAC", "NEWLINE", "TAB", "NAME", "INT", "APPLY", "PERIOD", "MINUS", "LSQBRAC") if t in sentences.EXEMPLARS]
    for a_, b_, c_ in itertools.product(nb, ex, nb):
        texts.append(a_ + b_ + c_)
        texts.append(a_ + " " + b_ + " " + c_)
    # characters that some tools put in front of a text or treat as blank: each is an ANY token wherever it stands
    for ch in ("\ufeff", "\u00a0", "\u200b", "\x0c", "\x00", "\ufffe"):
        for e_ in ex[::5] + ["name a\nversion 1.0\nG | 0\n"]:
            texts += [ch + e_, ch + ch + e_, e_ + ch, " " + ch + e_, e_ + ch + e_]
    res = pool.pmap(_lex_case, texts, chunk=200)
    lex_bad = 0
    for t, r in zip(texts, res):
        if r is not None:
            lex_bad += 1
            V.add("C14/lexer-replay", {"part": "b-replay", "text": t}, "real lexer %s vs grammar %s" % r)
    # (b'') several lexers / parsers alive at once
    valid = "name a\nversion 1.0\n\nfloat x = 0.5 # c\nG(x, k=[1, 2]) | [0, 1]\n"
    inter = [(valid, valid), (valid, "name b\nversion 1.0\n\nfor int i in 0:2\n    H(i) | i\n"), ("G(1) | 0 # c\n", valid), (valid, "name $\n"), ("1 +  2 # x\n", "a  b\tc")]
    for a_, b_ in itertools.product(ex[::3], ex[::4]):
        inter.append((a_ + " " + b_ + " #c\n" + b_, b_ + "  " + a_))
    ires = pool.pmap(_interleave_case, inter, chunk=20)
    for pr_, r in zip(inter, ires):
        if r is not None and r != "TIMEOUT":
            V.add("C14/" + r[0], {"part": "b-interleave", "pair": list(pr_)}, r[1])
    cov["objects_alive_at_once"] = {"pairs": len(inter), "rule": "two lexers advanced in lock step; two parsers built before either runs, run in both orders; each must give what it gives alone"}
    # (c) (d)
    pp = product.parser_product(BP, o.parser_rules)
    for m in pp["mismatches"]:
        V.add("C14/parser-product:" + str(m[0]), {"part": "c", "what": repr(m)[:300]}, repr(m)[:300])
    for pc in product.precedence_check(BP, o.parser_rules):
        if pc["expect_preds"] != pc["got_preds"] or pc["expect_calls"] != pc["got_calls"]:
            V.add("C14/precedence:" + pc["rule"], {"part": "d", "what": repr(pc)}, repr(pc))
    for rn, exp_t, got_t in product.operator_table(BP, o.parser_rules):
        if exp_t != got_t:
            V.add("C14/operator-table:" + rn, {"part": "d", "what": "operator table"}, "g4 implies %r, ATN has %r" % (exp_t, got_t))
    cov["operator_table"] = [list(map(list, x[1])) for x in product.operator_table(BP, o.parser_rules)]
    # (e)
    G = o.G
    collapse = sentences.interchange_classes(G)
    rules = [r.name for r in o.parser_rules]
    budget = 15000 if ctx.quick else 400000
    per = sentences.per_rule_sentences(G, rules, collapse, budget)
    cx = sentences.contexts(G)
    sh = sentences.shortest(G)
    cases = {}
    LX = {}
    for r in rules:
        L, sents = per[r]
        LX[r] = (L, len(sents))
        pre, suf = cx.get(r, ((), ()))
        for s in sents:
            toks = pre + s + suf
            cases.setdefault(sentences.to_text(toks), ("sentence", r))
    # every member of every interchangeability class exercised once
    members = collections.defaultdict(list)
    for t, rep in collapse.items():
        members[rep].append(t)
    for r in rules:
        base = cx[r][0] + sh[r] + cx[r][1] if r in cx else None
        if base is None:
            continue
        for i, t in enumerate(base):
            for alt in members.get(collapse.get(t, t), []):
                if alt != t:
                    cases.setdefault(sentences.to_text(base[:i] + (alt,) + base[i + 1:]), ("class-member", r))
    # mutations of the shortest sentence through each rule
    alphabet = [t for t in lp["g4_tokens"] if t in sentences.EXEMPLARS and t not in ("SPACE", "COMMENT")]
    mut_alpha = alphabet if not ctx.quick else [t for t in alphabet if collapse.get(t, t) == t or t in ("MINUS",)]
    seen_base = set()
    for r in rules:
        if r not in cx:
            continue
        base = cx[r][0] + sh[r] + cx[r][1]
        if base in seen_base:
            continue
        seen_base.add(base)
        for mt in mutations(tuple(t for t in base if t != "EOF"), mut_alpha):
            cases.setdefault(sentences.to_text(mt), ("mutation", r))
    # token spellings: a token type with several spellings (TAB: tab / four blanks, NEWLINE: LF / CRLF / CR, BOOL) may be
    # spelt differently at every occurrence - the verdict depends on the token types only
    SPELL = {"TAB": ["\t", "    "], "NEWLINE": ["\n", "\r\n", "\r"], "BOOL": ["True", "False"]}
    rich = [("PROGNAME", "NAME", "NEWLINE", "VERSION", "FLOAT", "NEWLINE", "TYPE_FLOAT", "TYPE_ARRAY", "NAME", "ASSIGN", "NEWLINE", "TAB", "FLOAT", "COMMA", "FLOAT", "NEWLINE", "TAB", "FLOAT", "COMMA", "FLOAT", "NEWLINE",
             "FOR", "TYPE_INT", "NAME", "IN", "INT", "COLON", "INT", "NEWLINE", "TAB", "NAME", "APPLY", "INT", "NEWLINE", "TAB", "NAME", "LBRAC", "BOOL", "COMMA", "BOOL", "RBRAC", "APPLY", "NAME", "NEWLINE", "EOF")]
    # ... and every single-token mutation of two longer sentences in which the starred / plussed parts of the rules are
    # taken at least twice and each kind of item comes last (array rows at the end of input, a loop body at the end of input)
    array_last = rich[0][:rich[0].index("FOR")]
    for base in (array_last, tuple(t for t in rich[0] if t != "EOF")):
        for mt in mutations(base, mut_alpha):
            cases.setdefault(sentences.to_text(mt), ("mutation-long", "program"))
    bases_sp = [cx[r][0] + sh[r] + cx[r][1] for r in rules if r in cx] + rich
    nspell = 0
    for base in dict.fromkeys(bases_sp):
        pos = [i for i, t in enumerate(base) if t in SPELL]
        ntab = sum(1 for i in pos if base[i] == "TAB")
        if len(pos) < 2:
            continue
        choices = [SPELL[base[i]] if (base[i] != "NEWLINE" or len(pos) <= 7) else None for i in pos]
        for nlstyle in (SPELL["NEWLINE"] if any(c is None for c in choices) else [None]):
            opts = [c if c is not None else [nlstyle] for c in choices]
            for combo in itertools.product(*opts):
                sp = dict(zip(pos, combo))
                out_, prev = [], None
                for i, t in enumerate(base):
                    if t == "EOF":
                        continue
                    if prev is not None and prev not in sentences.GLUE and t not in sentences.GLUE:
                        out_.append(" ")
                    out_.append(sp.get(i, sentences.EXEMPLARS[t]))
                    prev = t
                if cases.setdefault("".join(out_), ("spelling", "-")) == ("spelling", "-"):
                    nspell += 1
    for ch in ("\ufeff", "\u00a0", "\u200b", "\x0c"):
        for r in rules[:6]:
            if r in cx:
                t_ = sentences.to_text(cx[r][0] + sh[r] + cx[r][1])
                cases.setdefault(ch + t_, ("prefix-character", r))
                cases.setdefault(t_ + ch, ("suffix-character", r))
    # LONG sentences: what a parser counts, caches or stacks up per statement / expression / row only shows on scripts far longer
    # than any bounded sentence set - hundreds of statements, declarations, loops, array entries, arguments, modes, terms, brackets
    for name_, text_ in long_sentences().items():
        cases.setdefault(text_, ("long", name_))
    texts_e = sorted(cases)
    texts_e = common.shard(texts_e, ctx.seed)
    res = pool.pmap(_parse_case, texts_e, chunk=100)
    n_gram = 0
    for t, r in zip(texts_e, res):
        if r == "TIMEOUT":
            V.add("C14/no-outcome", {"part": "e", "text": t}, "timeout")
        elif r is not None:
            V.add("C14/parser-verdict:" + r[0], {"part": "e", "text": t, "kind": cases[t][0], "rule": cases[t][1]}, repr(r)[:300])
    kinds = collections.Counter(v[0] for v in cases.values())
    cov.update({
        "states": lp["states"] + pp["states"], "transitions": lp["transitions"] + pp["transitions"],
        "traces_validated_against_impl": len(texts) + len(texts_e) + len(inter),
        "samples": [repr(x) for x in common.sample(lp["access_strings"], 4)] + [repr(x) for x in common.sample(texts_e, 4)],
        "lexer_product": {"states": lp["states"], "transitions": lp["transitions"], "char_classes": lp["char_classes"], "mismatches": len(lp["mismatches"]),
                          "replayed_on_real_lexer": len(texts), "replay_differences": lex_bad},
        "parser_product": {"rules": pp["rules"], "states": pp["states"], "transitions": pp["transitions"], "mismatches": len(pp["mismatches"])},
        "parser_verdicts": {"cases": len(texts_e), "by_kind": dict(kinds), "per_rule_length_bound_and_count": LX, "budget_per_rule": budget,
                            "interchangeability_classes": {rep: sorted(ms) for rep, ms in members.items()}},
        "evaluations": n_a + len(texts) + len(texts_e), "distinct_nontrivial": len(set(texts)) + len(texts_e),
        "rule": "states/transitions: reachable states of the two products (complete). traces: every access string of the lexer product x 7 suffixes and all exemplar pairs replayed on the real lexer; "
                "every sentence of <= L_X tokens per rule X (L_X listed, complete sets, collapsed to one representative per interchangeability class, each class member exercised once) "
                "and every single-token mutation of the shortest sentence through each rule replayed on the real parser against the Earley verdict; all distinct by text",
        "exhaustive": True,
    })
    return {"coverage": cov, "violations": V.records(),
            "assumptions": ["ANTLR Python runtime's ATNDeserializer is used to read the shipped automata", "C++ parser cannot be executed here: for C++ only identity of automata, vocabularies and rule skeletons is claimed"]}


def replay(case):
    part = case.get("part")
    if part == "b-replay":
        r = _lex_case(case["text"])
        return (r is not None), repr(r)
    if part == "e":
        r = _parse_case(case["text"])
        return (r is not None), repr(r)
    if part == "b-interleave":
        r = _interleave_case(tuple(case["pair"]))
        return (r is not None), repr(r)
    if part == "a":
        _, bad = artefact_identity()
        hit = [b for b in bad if list(map(str, b))[:2] == case["what"][:2]]
        return bool(hit), repr(hit[:1])
    if part == "b":
        from blackbird.blackbirdLexer import blackbirdLexer as BL
        lp = product.lexer_product(BL, oracle().L)
        return bool(lp["mismatches"]) or lp["g4_tokens"] != list(BL.symbolicNames[1:]), repr(lp["mismatches"][:1])
    if part == "c":
        from blackbird.blackbirdParser import blackbirdParser as BP
        pp = product.parser_product(BP, oracle().parser_rules)
        return bool(pp["mismatches"]), repr(pp["mismatches"][:1])
    if part == "d":
        from blackbird.blackbirdParser import blackbirdParser as BP
        pcs = product.precedence_check(BP, oracle().parser_rules)
        badp = [pc for pc in pcs if pc["expect_preds"] != pc["got_preds"] or pc["expect_calls"] != pc["got_calls"]]
        badp += [x for x in product.operator_table(BP, oracle().parser_rules) if x[1] != x[2]]
        return bool(badp), repr(badp)
    return False, "unknown part"
