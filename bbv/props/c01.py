"""C01  Serialise-then-parse round trip preserves every parsed program, in every generation.

Valid scripts are enumerated from the shared alphabet; P1 = loads(S), T1 = dumps(P1), P2 = loads(T1), ...
until the text repeats (then every later generation is identical, because dumps o loads is a function of
the text: C12 + C19), cap 5 generations.  Oracle: P(k+1) equivalent to P(k) (bbv/props/equiv.py).
"""
import ast as pyast
import collections
import itertools

from bbv.core import pool
from bbv.model import lang, alphabet as A
from bbv.model.lang import N, V, B, U, P, Q, L, S
from . import common, equiv

LEVEL = "exploration"
GEN_CAP = 5


def script(meta, stmts, extra_decls=()):
    need = set()
    for st in stmts:
        need |= A.needs(st)
    if "n" in need or any(True for _ in ()):
        pass
    if ("idx", "A", V("n")) and "A" in need:
        pass
    decls = [d for d in A.DECLS if d[2] in need]
    return dict(meta, items=list(extra_decls) + decls + list(stmts))


def st(op, args, kwargs, modes=None, style="none"):
    return ("stmt", op, args, kwargs, modes or [N("0")], style)


def _template_array_features(p):
    """(has an object-dtype array as argument or tdm variable, parameters that occur in no operation argument)"""
    import numpy as np
    import sympy as sym
    obj_arg = False
    used = set()

    def walk(v):
        nonlocal obj_arg
        if isinstance(v, np.ndarray):
            if v.dtype == object:
                obj_arg = True
                for x in v.flatten().tolist():
                    walk(x)
        elif isinstance(v, sym.Expr):
            used.update(str(x) for x in v.free_symbols)
        elif isinstance(v, (list, tuple)):
            for x in v:
                walk(x)
    for o in p.operations:
        for v in list(o.get("args", [])) + list(o.get("kwargs", {}).values()):
            walk(v)
    if p.programtype.get("name") == "tdm":
        for v in p.variables.values():
            if isinstance(v, np.ndarray) and v.dtype == object:
                obj_arg = True
    return obj_arg, set(p.parameters) - used


@common.guarded("C01")
def roundtrip(text):
    """None | 'skip' | (key, detail)"""
    r = _roundtrip(text)
    if isinstance(r, tuple):
        s1, p = common.loads(text)
        obj_arg, unused = _template_array_features(p)
        if obj_arg and r[0].startswith("C01/dumps-raises:") and ("@gen1" in r[0]) and ("unsupported type" in r[1] or "KeyError: 'O'" in r[1]):
            return ("C01/array-with-parameters-not-serialisable", r[1])
        if unused and r[0].startswith("C01/differs:parameters@gen1"):
            return ("C01/parameter-only-in-unserialised-variable", r[1])
    return r


def _roundtrip(text):
    s1, p = common.loads(text)
    if s1 == "exc":
        return "skip"
    prev_text = None
    for gen in range(1, GEN_CAP + 1):
        s2, t = common.dumps(p)
        if s2 == "exc":
            return ("C01/dumps-raises:%s@gen%d:%s" % (type(t).__name__, min(gen, 2), common.msgclass(t)), common.exc_sig(t))
        if t == prev_text:
            return None
        s3, q = common.loads(t)
        if s3 == "exc":
            return ("C01/reload-raises:%s@gen%d:%s" % (type(q).__name__, min(gen, 2), common.msgclass(q)), common.exc_sig(q) + " ;; serialised: " + t[-200:])
        d = equiv.prog_equiv(p, q)
        if d:
            return ("C01/differs:%s@gen%d" % (equiv.classify(d), min(gen, 2)), "; ".join(d)[:300] + " ;; serialised: " + t[-160:])
        p, prev_text = q, t
    return "capped"


@common.guarded("C01")
def file_roundtrip(text):
    """the same round trip through the file interface (dump to a file, load the file), every program of a worker
    through the same path: the file route must give what the string route gives"""
    s1, p = common.loads(text)
    if s1 == "exc":
        return "skip"
    s2, t = common.dumps(p)
    if s2 == "exc":
        return "skip"          # the string route already reports it
    s3, q = common.loads(t)
    if s3 == "exc":
        return "skip"
    fr = common.file_route(p)
    if fr[0] == "exc":
        return ("C01/file-route:%s-raises:%s" % (fr[2], type(fr[1]).__name__), common.exc_sig(fr[1]) + " ;; " + t[-160:])
    _, qf, ondisk = fr
    if ondisk != t:
        return ("C01/file-route:text-on-disk-differs-from-dumps", "dumps %r ;; file %r" % (t[-120:], ondisk[-120:]))
    d = equiv.prog_equiv(q, qf)
    if d:
        return ("C01/file-route:differs:%s" % equiv.classify(d), "; ".join(d)[:300] + " ;; " + t[-160:])
    return None


def _case(sc):
    if isinstance(sc, tuple) and sc[0] == "file":
        return file_roundtrip(lang.render(sc[1]))
    return roundtrip(lang.render(sc))


def tdm_scripts(shapes):
    out = []
    meta = dict(name="t1", version="1.0", type=("tdm", [], [("temporal_modes", N("2"))]))
    p0 = ("arr", "float", "p0", None, [[N("0.5"), U("-", N("1.5")), N("2.0")]])
    p1 = ("arr", "int", "p1", None, [[N("1"), N("2"), U("-", N("3"))]])
    p2 = ("arr", "complex", "p12", (1, 2), [[N("1+2j"), N("0.5j")]])
    # string arguments that spell the name of a declared (non-p) variable, next to the variable itself
    for d in A.DECLS:
        nm = d[2]
        out.append(dict(meta, items=[p0, d, st("G", [S(nm), V(nm)], [("k", S(nm)), ("v", V(nm))], [N("0")])]))
        out.append(dict(meta, items=[d, st("G", [S(nm)], [], [N("0")])]))
    for arrs in ([p0], [p0, p1], [p2, p0]):
        names = [a[2] for a in arrs]
        base = [st("Sgate", [V(names[0]), N("0.0")], [], [N("1")]), st("MeasureHomodyne", [], [("phi", V(names[-1]))], [N("0")])]
        out.append(dict(meta, items=arrs + base))
        for a in shapes:
            need = A.needs(a)
            decls = [d for d in A.DECLS if d[2] in need]
            out.append(dict(meta, items=arrs + decls + base + [st("G", [a, V(names[0])], [], [N("0"), N("1")], "sq")]))
    return out


def build(ctx):
    shapes = [a for _, a in A.ARG_SHAPES]
    scripts = []
    fam = collections.Counter()

    def add(f, sc):
        scripts.append(sc)
        fam[f] += 1
    metas = A.METAS
    for meta in metas:
        for a in shapes:
            add("meta x 1 arg", script(meta, [st("G", [a], [])]))
            add("meta x 1 kwarg", script(meta, [st("G", [], [("k", a)])]))
    m0 = metas[0]
    pairs = list(itertools.product(shapes, repeat=2))
    for a, b in pairs:
        add("2 positional", script(m0, [st("G", [a, b], [], [N("0"), N("1")], "sq")]))
        add("positional + keyword", script(m0, [st("G", [a], [("k", b)])]))
        add("2 keywords", script(m0, [st("G", [], [("k", a), ("l", b)], [N("2"), N("0")], "rd")]))
        add("2 statements", script(m0, [st("G", [a], []), st("H", [], [("k", b)], [N("1")])]))
    lists = A.KW_LISTS + A.KW_LISTS_T
    for a in shapes:
        for k in lists:
            add("list keyword", script(m0, [st("K", [a], [("k", k), ("l", N("2"))])]))
    for k1, k2 in itertools.product(lists, repeat=2):
        add("2 list keywords", script(m0, [st("K", [], [("k", k1), ("m", k2)])]))
    for (style, modes), a in itertools.product(A.MODE_FORMS, shapes):
        add("mode forms", script(m0, [st("G", [a], [], modes, style)]))
    for a in shapes:
        add("loop", script(m0, [("for", "int", "i", ("range", 0, 2, None), [st("L", [a, V("i")], [], [V("i"), B("+", V("i"), N("1"))], "sq")])]))
        add("loop list", script(m0, [("for", "float", "t", ("vals", [N("0.5"), N("2")], "sq"), [st("L", [], [("k", V("t")), ("a", a)])])]))
    for sc in tdm_scripts(shapes):
        add("tdm", sc)
    # arrays that coincide under a coarser notion of equality: same numbers in another shape, same memory image in
    # another element type, equal arrays under two names - in one program, in both orders, in every pairing of positions
    coll = {"A": A.DECL_BY_NAME["A"],
            "R": ("arr", "float", "R", None, [[N("1.5"), N("2.5"), U("-", N("3.0")), N("4.25")]]),
            "C4": ("arr", "float", "C4", (4, 1), [[N("1.5")], [N("2.5")], [U("-", N("3.0"))], [N("4.25")]]),
            "A2": ("arr", "float", "A2", None, [[N("1.5"), N("2.5")], [U("-", N("3.0")), N("4.25")]]),
            "Z": ("arr", "int", "Z", None, [[N("0"), N("0")]]), "Zf": ("arr", "float", "Zf", None, [[N("0.0"), N("0.0")]]),
            "Zc": ("arr", "complex", "Zc", (1, 1), [[N("0j")]]), "Z1": ("arr", "int", "Z1", (2, 1), [[N("0")], [N("0")]])}
    for x, y in itertools.permutations(coll, 2):
        ds = [coll[x], coll[y]]
        add("coinciding arrays", dict(m0, items=ds + [st("G", [V(x), V(y)], [], [N("0"), N("1")], "sq")]))
        add("coinciding arrays", dict(m0, items=ds + [st("G", [V(x)], [("k", V(y))])]))
        add("coinciding arrays", dict(m0, items=ds + [st("G", [V(x)], []), st("H", [], [("k", V(y)), ("l", V(x))], [N("1")])]))
    # value sweep: floats at and around values a serialiser might prettify or round, in every position
    for t in A.near_special_floats():
        for v in (N(t), U("-", N(t))):
            add("near-special floats", script(m0, [st("G", [v, N("1")], [("k", v), ("l", L(v, N("2")))])]))
        add("near-special floats", script(dict(name="o", version="1.0", target=("g", [], [("o", N(t))]), type=("t", [], [("l", L(N(t)))])), [st("G", [B("*", N(t), P("a"))], [])]))
    if not ctx.quick:
        for a, b, c in itertools.product(shapes[::2], repeat=3):
            add("3 arguments", script(m0, [st("G", [a, b], [("k", c)], [N("0"), N("1")], "sq")]))
        for meta in metas[1:]:
            for a, b in pairs[::3]:
                add("options x 2 args", script(meta, [st("G", [a], [("k", b)])]))
        for a, b in pairs[::2]:
            add("3 statements", script(m0, [st("G", [a], []), st("MeasureX", None, [], [N("0")]), st("H", [b], [("k", a)], [N("1")])]))
    # the file route (dump to a file / load the file), one working file per worker: every single-argument script
    for sc in list(scripts):
        if fam and len(sc["items"]) and sc.get("name") in (metas[0]["name"], metas[1]["name"], "t1", "o") and sum(1 for it in sc["items"] if it[0] == "stmt") == 1 \
                and len(sc["items"][-1][2] or []) + len(sc["items"][-1][3] or []) <= (1 if sc.get("name") != "o" else 3):
            scripts.append(("file", sc))
            fam["file route"] += 1
    return scripts, fam


def _text(sc):
    return lang.render(sc[1]) if isinstance(sc, tuple) else lang.render(sc)


def run(ctx):
    common.SCRATCH = ctx.scratch
    scripts, fam = build(ctx)
    scripts = common.shard(scripts, ctx.seed)
    res = pool.pmap(_case, scripts, chunk=50)
    Vs = common.Violations(keep=6)
    stats = collections.Counter()
    distinct = set()
    for sc, r in zip(scripts, res):
        if r == "skip":
            stats["script_does_not_load_skipped"] += 1
            continue
        distinct.add(("file:" if isinstance(sc, tuple) else "") + _text(sc))
        if r is None:
            stats["round_trip_ok"] += 1
        elif r == "capped":
            stats["no_text_fixpoint_within_cap"] += 1
        elif r == "TIMEOUT":
            Vs.add("C01/no-outcome", {"text": _text(sc)}, "timeout")
        else:
            Vs.add(r[0], {"text": _text(sc), "route": "file" if isinstance(sc, tuple) else "string"}, r[1])
    cov = {"evaluations": len(scripts), "distinct_nontrivial": len(distinct),
           "rule": "valid scripts from the shared alphabet (%d argument shapes incl. every print form of ints/floats/complex, booleans, strings, variables, array elements, arrays, parameter expressions over overlapping and look-alike names, register expressions; "
                   "%d list-valued keyword shapes; %d mode forms; %d metadata variants): every single argument x metadata, every ordered pair as 2 positional / positional+keyword / 2 keywords / 2 statements, lists x shapes, list pairs, mode forms x shapes, "
                   "loops, tdm programs with p-arrays, pairs of arrays that coincide in numbers / memory image but differ in shape or element type, %d floats at and around pi multiples / e / 1 / 1/3 / sqrt 2 / powers of ten in every position, and every single-argument script also through the file interface (dump to / load from one working file per worker); thorough adds triples, options x pairs and 3-statement scripts. Each is loaded, serialised and re-loaded until the text repeats (cap %d generations). "
                   "non-trivial = script loads and has >= 1 operation with an argument; distinct by rendered text" % (len(A.ARG_SHAPES), len(A.KW_LISTS) + len(A.KW_LISTS_T), len(A.MODE_FORMS), len(A.METAS), len(A.near_special_floats()), GEN_CAP),
           "samples": [_text(s) for s in common.sample(scripts, 4)], "exhaustive": True, "by_family": dict(fam), **dict(stats)}
    return {"coverage": cov, "violations": Vs.records(),
            "assumptions": ["numbers/booleans/strings/lists/arrays compared exactly and kind-aware; symbolic arguments by evaluation at 3 points to 1e-9", "variables of non-tdm programs and whether an argument-less operation has an args key are not compared"]}


def replay(case):
    r = file_roundtrip(case["text"]) if case.get("route") == "file" else roundtrip(case["text"])
    return (r not in (None, "skip", "capped")), repr(r)[:400]
