"""C09  Programs assembled through the API serialise to valid, equivalent scripts.

Programs are built with BlackbirdProgram() and operation dictionaries from the value alphabet (every
supported kind x edge values) in every position (positional, keyword, target option, type option), with
1-3 operations, 1-3 modes (Python ints and np.int64), with/without args keys, with/without target/type, and
several arrays mixed with keywords.  Oracle: loads(dumps(P)) succeeds and is equivalent to P (C01
equivalence, arrays bit-exact including the sign of zero).
"""
import collections
import itertools

from bbv.core import pool
from . import common, equiv

LEVEL = "exploration"


def values():
    """(class, label, value factory) - factories so that every case gets fresh objects"""
    import numpy as np
    import sympy as sym
    a, b, alpha, e, a_1, x1 = sym.symbols("a b alpha e a_1 x1")
    q1a, q2_0, pix, sqrt2, p0 = sym.symbols("q1a q2_0 pix sqrt2 p0")   # look-alikes of registers, constants, functions, p-arrays
    V = []
    ints = [0, 7, -3, 2 ** 40, 2 ** 63 - 1, -2 ** 63]
    for v in ints:
        V.append(("int", repr(v), lambda v=v: v))
    for v in (5, -9, 0, 2 ** 62):
        V.append(("np.int64", "np.int64(%d)" % v, lambda v=v: np.int64(v)))
    floats = [0.5, 0.0, -0.0, 5e-324, 1e300, -1e-300, 0.1, 1 / 3, 1e16, 1e22, 123456789.123456789, -2.5, 1e-7, 1.7976931348623157e308, 2.2250738585072014e-308]
    for v in floats:
        V.append(("float", repr(v), lambda v=v: v))
    for v in (2.5, -1e-7, -0.0, 5e-324, 0.1):
        V.append(("np.float64", "np.float64(%r)" % v, lambda v=v: np.float64(v)))
    cplx = [1 + 2j, -1 - 2j, complex(0, 1), complex(1, -0.0), complex(-0.0, -2), complex(-0.0, 0.0), 1e-300 - 1e300j, complex(0.1, -1 / 3), complex(5e-324, -5e-324)]
    for v in cplx:
        V.append(("complex", repr(v), lambda v=v: v))
    for v in (3 - 4j, complex(-0.0, -0.0)):
        V.append(("np.complex128", "np.complex128(%r)" % v, lambda v=v: np.complex128(v)))
    for v in (True, False):
        V.append(("bool", repr(v), lambda v=v: v))
    for v in ("a", "with space", "p0", "x=1, y", "True", "1.5", "#c", ""):
        V.append(("str", repr(v), lambda v=v: v))
    lists = [[1, 2], [0.5, -1.5], [True, False], ["a", "b c"], [1 + 2j, complex(1, -0.0)], [1, 0.5, "s", True], [-1], [-0.0, 5e-324], [2 ** 63 - 1, -2 ** 63], []]
    for v in lists:
        V.append(("list", repr(v), lambda v=v: list(v)))
    V.append(("list-np", "[np.int64(1), np.int64(2)]", lambda: [np.int64(1), np.int64(2)]))
    V.append(("list-np", "[np.float64(0.5), np.complex128(1-2j)]", lambda: [np.float64(0.5), np.complex128(1 - 2j)]))
    V.append(("list-sym", "[a, 2*alpha+a]", lambda: [a, 2 * alpha + a]))
    arrs = {"int": lambda r, c: np.arange(r * c, dtype=np.int64).reshape(r, c) * 3 - 4,
            "float": lambda r, c: (np.arange(r * c, dtype=np.float64).reshape(r, c) - 1.5) / 4,
            "complex": lambda r, c: (np.arange(r * c).reshape(r, c) - 1) * (0.5 - 0.25j) + 1j}
    for kind, f in arrs.items():
        for r, c in itertools.product((1, 2, 3), repeat=2):
            V.append(("array-" + kind, "%s %dx%d" % (kind, r, c), lambda f=f, r=r, c=c: f(r, c)))
    V.append(("array-edge", "float [[-0.0, 5e-324, 1e300]]", lambda: np.array([[-0.0, 5e-324, 1e300]])))
    V.append(("array-edge", "float [[1e-300],[-1.7976931348623157e308]]", lambda: np.array([[1e-300], [-1.7976931348623157e308]])))
    V.append(("array-edge", "complex signs of zero", lambda: np.array([[complex(-0.0, -0.0), complex(1, -0.0)], [complex(-0.0, 2), complex(0.0, -5e-324)]])))
    # entries of every width 1..7 in one column (what a writer that lines columns up, pads, or wraps long rows would trip over)
    V.append(("array-edge", "int widths 1..7 per column", lambda: np.array([[1, -2, 7], [10, 33, 7], [100, -444, 7], [1000, 5555, 7], [10000, -66666, 7], [-100000, 777777, 7], [1000000, -8888888, 7]], dtype=np.int64)))
    V.append(("array-edge", "float widths", lambda: np.array([[1.0, 0.5, 2.0], [1000.5, -0.125, 2.0], [1e-05, 123456.789, 2.0], [-1e+20, 0.1, 2.0]])))
    V.append(("array-edge", "complex widths", lambda: np.array([[1 + 1j, 0.5j], [1000.5 - 250j, -0.125 + 100000j]])))
    V.append(("array-edge", "one long row", lambda: np.array([list(range(1, 41))], dtype=np.int64)))
    V.append(("array-edge", "int64 extremes", lambda: np.array([[2 ** 63 - 1, -2 ** 63]], dtype=np.int64)))
    # sizes beyond what array printers wrap or abbreviate (75 characters per line, 1000 elements)
    V.append(("array-large", "int identity 30x30", lambda: np.eye(30, dtype=np.int64)))
    V.append(("array-large", "int 1x1200", lambda: np.arange(1200, dtype=np.int64).reshape(1, 1200)))
    V.append(("array-large", "int 2x6 of 19-digit numbers", lambda: (np.arange(12, dtype=np.int64).reshape(2, 6) + 2 ** 62)))
    V.append(("array-large", "float 2x40", lambda: (np.arange(80, dtype=np.float64).reshape(2, 40) - 40.5) / 7))
    V.append(("array-large", "complex 40x2", lambda: ((np.arange(80).reshape(40, 2) - 40) * (1 / 3 - 0.7j))))
    V.append(("array-large", "float 1x1001", lambda: np.linspace(-1, 1, 1001).reshape(1, 1001)))
    # values that collide under a coarser equality: same shape and same memory image, different dtype
    V.append(("array-collide", "int64 zeros 2x2", lambda: np.zeros((2, 2), dtype=np.int64)))
    V.append(("array-collide", "float64 zeros 2x2", lambda: np.zeros((2, 2), dtype=np.float64)))
    V.append(("array-collide", "int64 [[0,1],[1,0]]", lambda: np.array([[0, 1], [1, 0]], dtype=np.int64)))
    V.append(("array-collide", "float64 [[0,5e-324],[5e-324,0]]", lambda: np.array([[0.0, 5e-324], [5e-324, 0.0]])))
    V.append(("array-collide", "float64 [[0,1],[1,0]]", lambda: np.array([[0.0, 1.0], [1.0, 0.0]])))
    V.append(("array-collide", "complex128 [[0,1],[1,0]]", lambda: np.array([[0, 1], [1, 0]], dtype=np.complex128)))
    # arrays that are not C-contiguous: transposed views, Fortran order, negative strides, sliced views
    base_c = (np.arange(6).reshape(2, 3) - 1) * (0.5 - 0.25j) + 1j
    V.append(("array-layout", "complex 3x2 transposed view", lambda: ((np.arange(6).reshape(2, 3) - 1) * (0.5 - 0.25j) + 1j).T))
    V.append(("array-layout", "complex 2x3 conj().T of 3x2", lambda: ((np.arange(6).reshape(3, 2) + 1) * (1 + 2j)).conj().T))
    V.append(("array-layout", "complex 2x3 Fortran order", lambda: np.asfortranarray((np.arange(6).reshape(2, 3) + 2) * (1 - 1j))))
    V.append(("array-layout", "complex 3x2 reversed rows", lambda: ((np.arange(6).reshape(3, 2) + 1) * (2 + 1j))[::-1]))
    V.append(("array-layout", "float 3x2 transposed view", lambda: (np.arange(6, dtype=np.float64).reshape(2, 3) - 2.5).T))
    V.append(("array-layout", "float 2x2 strided view", lambda: (np.arange(16, dtype=np.float64).reshape(4, 4) / 8)[::2, 1::2]))
    V.append(("array-layout", "int 2x3 Fortran order", lambda: np.asfortranarray(np.arange(6, dtype=np.int64).reshape(2, 3) - 3)))
    V.append(("array-layout", "int 3x1 reversed column", lambda: np.arange(3, dtype=np.int64).reshape(3, 1)[::-1]))
    V.append(("array-edge", "int32", lambda: np.array([[1, -2], [3, 4]], dtype=np.int32)))
    V.append(("array-edge", "float32", lambda: np.array([[0.5, -2.25]], dtype=np.float32)))
    syms = [a, 2 * a, a + b, a - 2 * b, a ** 2, a / b, 1 / a, a * b - 1, alpha + a, 0.1 * a, a / 3, 1e-7 * e, a_1 - a, x1 * 2.5 + alpha, -a, (a + b) / (a - 2), 1.5e-10 * alpha * e]
    for v in syms:
        V.append(("sympy", str(v), lambda v=v: v))
    for v in (-(a ** 2), -(a ** 3) * b, -((a + 1) ** 2), 2 ** (-a), 1 - a ** 2, -(a ** 2) / 2, b - a ** 2 / 4, -(2 ** a) / 3, -a * b ** 2 / 2, -3 * a ** 2 / 2):
        V.append(("sympy-signed-power", str(v), lambda v=v: v))
    for v in (q1a, 2 * q1a - q2_0, pix + a, sqrt2 * 2, p0 - a, q2_0 / pix):
        V.append(("sympy-lookalike-names", str(v), lambda v=v: v))
    lam, E_, I_, S_, N_, none_, is_ = [sym.Symbol(n) for n in ("lambda", "E", "I", "S", "None", "N", "is")]     # names that mean something to Python or SymPy
    for v in (lam, 2 * lam - E_, I_ * (S_ - 2), none_ / is_, N_ ** 2 + lam):
        V.append(("sympy-host-names", str(v), lambda v=v: v))
    for v in (sym.sqrt(a), sym.sin(a) + 1, sym.exp(-a) * b):
        V.append(("sympy-function", str(v), lambda v=v: v))
    # sweep values (each used singly in every position, not in the pair families): floats at and around values a
    # serialiser might prettify or round; strings with characters that are legal inside a Blackbird string literal
    # (anything but a double quote, CR and LF) and special to something else: other line-boundary characters of
    # str.splitlines, tabs, backslashes, comment and bracket characters, non-ASCII text, look-alikes of other tokens
    from bbv.model import alphabet as A_
    for t in A_.near_special_floats():
        V.append(("sweep-float", t, lambda t=t: float(t)))
        V.append(("sweep-float", "-" + t, lambda t=t: -float(t)))
    for v in ("a\x0bb", "a\x0cb", "a\x1cb", "a\x1db", "a\x1eb", "a\x85b", "a\u2028b", "a\u2029b", "tab\there", "back\\slash", "ends with \\", "caf\u00e9 \u03c0", "\U0001f642",
              "a#b", "trailing ", " leading", "'single'", "semi;colon", "{brace}", "[1, 2]", "(x)", "q0", "pi", "sqrt(2)", "1e3", "-1", "None", "name", "for", "a | 0", "k=v", "A0"):
        V.append(("sweep-str", repr(v), lambda v=v: v))
    return V


def make(spec):
    """spec -> BlackbirdProgram (fresh objects)"""
    import numpy as np
    from blackbird import BlackbirdProgram
    V = _values()
    if spec.get("share"):
        # one object per value of the alphabet for the whole program (the same array / list handed to several operations)
        made = {}
        base = V

        class _Shared:
            def __getitem__(self, i):
                cls, lab, f = base[i]
                if i not in made:
                    made[i] = f()
                return (cls, lab, lambda i=i: made[i])
        V = _Shared()
    p = BlackbirdProgram(name=spec.get("name", "prog"), version=spec.get("version", "1.0"))
    for tag, holder in (("target", p.target), ("type", p.programtype)):
        t = spec.get(tag)
        if t:
            holder["name"] = t[0]
            for k, vi in t[1]:
                holder["options"][k] = V[vi][2]()
    for o in spec["ops"]:
        modes = [np.int64(m) if o.get("npmodes") else m for m in o["modes"]]
        if o.get("noargs"):
            p.operations.append({"op": o["op"], "modes": modes})
        else:
            p.operations.append({"op": o["op"], "args": [V[i][2]() for i in o.get("args", [])], "kwargs": {k: V[i][2]() for k, i in o.get("kwargs", [])}, "modes": modes})
        for m in modes:
            p.modes.add(int(m))
    # a program whose arguments contain SymPy parameters is a template: register the names (there is no public setter)
    import sympy as sym
    names = set()

    def walk(v):
        if isinstance(v, sym.Expr):
            names.update(str(x) for x in v.free_symbols)
        elif isinstance(v, (list, tuple)):
            for x in v:
                walk(x)
    for o in p.operations:
        for v in list(o.get("args", [])) + list(o.get("kwargs", {}).values()):
            walk(v)
    if names and isinstance(getattr(p, "_parameters", None), list):
        p._parameters.extend(sym.Symbol(n) for n in sorted(names))
    return p


_V = None


def _values():
    global _V
    if _V is None:
        _V = values()
    return _V


def _written_parameters(p):
    import sympy as sym
    names = set()

    def walk(v):
        if isinstance(v, sym.Expr):
            names.update(str(x) for x in v.free_symbols)
        elif isinstance(v, (list, tuple)):
            for x in v:
                walk(x)
    for o in p.operations:
        for v in list(o.get("args", [])) + list(o.get("kwargs", {}).values()):
            walk(v)
    return names


@common.guarded("C09")
def judge(spec):
    import blackbird
    V = _values()
    p = make(spec)
    st, t = common.dumps(p)
    used = set()
    for o in spec["ops"]:
        used |= set(o.get("args", [])) | {i for _, i in o.get("kwargs", [])}
    optused = {i for tag in ("target", "type") if spec.get(tag) for _, i in spec[tag][1]}
    classes = sorted({V[i][0] for i in used}) + sorted({"option:" + V[i][0] for i in optused})

    def key(kind, extra=""):
        # known classes first (feature of the case AND signature of the failure)
        empty = any(V[i][1] == "[]" for i in used | optused)
        if empty and kind in ("differs",) and set(extra.split("|")) <= {"op-kwarg", "target-option", "type-option", "op-kwarg-names", "target-option-names", "type-option-names"}:
            return "C09/empty-list-keyword"
        if any(V[i][0] == "sympy-function" for i in used | optused) and kind == "reload-raises" and "TypeError" in extra:
            return "C09/sympy-function-cannot-be-reloaded"
        if any(V[i][0].startswith("array") for i in optused) and kind == "reload-raises":
            return "C09/array-in-metadata-option"
        return "C09/%s:%s:%s" % (kind, "+".join(classes)[:80], extra[:60])
    if st == "exc":
        return (key("dumps-raises", type(t).__name__ + ":" + common.msgclass(t)), common.exc_sig(t))
    st2, q = common.loads(t)
    if st2 == "exc":
        return (key("reload-raises", type(q).__name__ + ":" + common.msgclass(q)), common.exc_sig(q) + " ;; " + t[-300:])
    p2 = make(spec)      # compare against a fresh copy: dumps must not be needed to have left p intact here (C13's subject)
    d = equiv.prog_equiv(p2, q)
    if set(p2.parameters) != _written_parameters(p2):
        # the harness could not register the parameter names on the assembled program (no public setter and the
        # internal list is gone): the parameter comparison would be about the harness, not about dumps/loads
        d = [x for x in d if not x.startswith("parameters")]
    if d:
        return (key("differs", equiv.classify(d)), "; ".join(d)[:300] + " ;; " + t[-200:])
    if spec.get("edit"):
        # the caller goes on working with the program after a first dumps: an argument is replaced by another value,
        # an operation is added - the next dumps describes the program as it is now
        p.operations[0]["args"][0] = V[spec["edit"]][2]()
        p.operations.append({"op": "Added", "args": [V[spec["edit"]][2]()], "kwargs": {}, "modes": [5]})
        st4, t4 = common.dumps(p)
        if st4 == "exc":
            return (key("dumps-after-edit-raises", type(t4).__name__), common.exc_sig(t4))
        st5, q5 = common.loads(t4)
        if st5 == "exc":
            return (key("reload-after-edit-raises", type(q5).__name__), common.exc_sig(q5) + " ;; " + t4[-200:])
        want = make(spec)
        want.operations[0]["args"][0] = V[spec["edit"]][2]()
        want.operations.append({"op": "Added", "args": [V[spec["edit"]][2]()], "kwargs": {}, "modes": [5]})
        want.modes.add(5)
        d = equiv.prog_equiv(want, q5)
        if set(want.parameters) != _written_parameters(want):
            d = [x for x in d if not x.startswith("parameters")]
        d = [x for x in d if not x.startswith("modes")]
        if d:
            return (key("differs-after-edit", equiv.classify(d)), "; ".join(d)[:300] + " ;; " + t4[-200:])
    if spec.get("inplace"):
        # the caller edits the values it handed over IN PLACE between two dumps (an array element assigned, an array
        # scaled, a list extended), and replaces an array by fresh arrays several times in a row (a freed array's address
        # is handed out again): every dumps describes the program as it is at that moment
        import numpy as np

        def edit(prog, rnd):
            for o in prog.operations:
                for v in list(o.get("args", [])) + list(o.get("kwargs", {}).values()):
                    if isinstance(v, np.ndarray) and v.flags.writeable:
                        if rnd == 0:
                            v.flat[v.size - 1] = v.flat[0] + 3       # one element assigned
                        else:
                            v *= 2                                   # the whole array scaled in place
                    elif isinstance(v, list):
                        v.append(v[0] if v else 7)
        for rnd in (0, 1):
            edit(p, rnd)
            st4, t4 = common.dumps(p)
            if st4 == "exc":
                return (key("dumps-after-inplace-edit-raises", type(t4).__name__), common.exc_sig(t4))
            st5, q5 = common.loads(t4)
            if st5 == "exc":
                return (key("reload-after-inplace-edit-raises", type(q5).__name__), common.exc_sig(q5) + " ;; " + t4[-200:])
            want = make(spec)
            for r_ in range(rnd + 1):
                edit(want, r_)
            d = equiv.prog_equiv(want, q5)
            if set(want.parameters) != _written_parameters(want):
                d = [x for x in d if not x.startswith("parameters")]
            if d:
                return (key("differs-after-inplace-edit", equiv.classify(d)), "round %d: " % rnd + "; ".join(d)[:300] + " ;; " + t4[-200:])
        a0 = p.operations[0].get("args") or []
        if a0 and isinstance(a0[0], np.ndarray):
            shape, dt = a0[0].shape, a0[0].dtype
            for k in range(1, 6):
                p.operations[0]["args"][0] = (np.arange(int(np.prod(shape))).reshape(shape) + 10 * k).astype(dt)      # the previous array is freed here
                st4, t4 = common.dumps(p)
                st5, q5 = common.loads(t4) if st4 == "ok" else ("exc", t4)
                if st5 == "exc":
                    return (key("dumps-or-reload-after-replacement-raises", type(q5).__name__), common.exc_sig(q5))
                got = q5.operations[0]["args"][0] if q5.operations and q5.operations[0].get("args") else None
                if not (isinstance(got, np.ndarray) and got.shape == shape and (got == p.operations[0]["args"][0]).all()):
                    return (key("differs-after-replacement"), "replacement %d: wrote %r, script gives %r ;; %s" % (k, p.operations[0]["args"][0].tolist(), getattr(got, "tolist", lambda: got)(), t4[-200:]))
    if spec.get("share"):
        # serialising must leave the values it was given as they were, and give the same text again
        st3, t3 = common.dumps(p)
        if st3 == "exc" or t3 != t:
            return (key("second-dumps-differs"), "first %r ;; second %r" % (t[-200:], (t3 if st3 == "ok" else common.exc_sig(t3))[-200:]))
        d = equiv.prog_equiv(make(spec), p)
        if d:
            return (key("dumps-changed-the-values-it-was-given", equiv.classify(d)), "; ".join(d)[:300])
    if spec.get("file"):
        # the file interface (dump into one working file per worker, load it back) must give what the string route gives
        fr = common.file_route(make(spec))
        if fr[0] == "exc":
            return (key("file-route-%s-raises" % fr[2], type(fr[1]).__name__ + ":" + common.msgclass(fr[1])), common.exc_sig(fr[1]) + " ;; " + t[-200:])
        if fr[2] != t:
            return (key("file-route-text-differs"), "dumps %r ;; file %r" % (t[-150:], fr[2][-150:]))
        d = equiv.prog_equiv(q, fr[1])
        if d:
            return (key("file-route-differs", equiv.classify(d)), "; ".join(d)[:300] + " ;; " + t[-200:])
    return None


def _case(spec):
    return judge(spec)


def build(ctx):
    V = _values()
    n = len(V)
    idx = list(range(n))
    scalars = [i for i in idx if not V[i][0].startswith(("list", "array", "sweep"))]
    sweep = [i for i in idx if V[i][0].startswith("sweep")]
    lists = [i for i in idx if V[i][0].startswith("list")]
    arrays = [i for i in idx if V[i][0].startswith("array") and V[i][0] != "array-large"]
    large = [i for i in idx if V[i][0] == "array-large"]
    specs = []
    fam = collections.Counter()
    label = {V[i][1]: i for i in idx}

    def add(f, s):
        specs.append(s)
        fam[f] += 1
    for i in scalars + arrays:
        add("1 positional", {"ops": [{"op": "G", "args": [i], "modes": [0]}]})
        add("1 keyword", {"ops": [{"op": "G", "kwargs": [("k", i)], "modes": [0, 1]}]})
    for i in lists:
        add("list keyword", {"ops": [{"op": "G", "args": [0], "kwargs": [("k", i)], "modes": [0]}]})
    for i in scalars + lists + arrays[:3]:
        add("target option", {"target": ("X8_01", [("o", i)]), "ops": [{"op": "G", "noargs": True, "modes": [0]}]})
        add("type option", {"type": ("tdm", [("o", i)]), "ops": [{"op": "G", "args": [1], "modes": [0]}]})
    for i in large:
        add("large arrays", {"ops": [{"op": "G", "args": [i], "modes": [0]}]})
        add("large arrays", {"type": ("tdm", []), "ops": [{"op": "G", "args": [1], "kwargs": [("k", i)], "modes": [0]}, {"op": "H", "args": [i], "modes": [1]}], "share": True})
    for i in sweep:
        add("sweep: every position", {"target": ("g", [("o", i)]), "type": ("t", [("p", i)]), "ops": [{"op": "G", "args": [i, 1], "kwargs": [("k", i)], "modes": [0]}], "file": True})
        add("sweep: alone", {"ops": [{"op": "G", "args": [i], "modes": [0]}]})
    for i in scalars + lists + arrays[::5]:
        add("file route", {"target": ("g", [("o", i if i not in arrays else 0)]), "ops": [{"op": "G", "args": [i] if i not in lists else [1], "kwargs": [("k", i)], "modes": [1, 0]}], "file": True})
    for i in arrays + lists:
        add("one object, several uses", {"ops": [{"op": "G", "args": [i], "modes": [0]}, {"op": "H", "args": [1], "kwargs": [("k", i)], "modes": [1]}, {"op": "K", "args": [i, i], "modes": [0, 1]}], "share": True}
            if i in arrays else {"target": ("g", [("o", i)]), "ops": [{"op": "H", "args": [1], "kwargs": [("k", i), ("l", i)], "modes": [1]}], "share": True})
    for (i, j), ty in itertools.product(itertools.product(arrays[::3] + scalars[:3], arrays[1::4] + scalars[3:5]), (None, ("tdm", []), ("t", [("z", 1)]))):
        spec = {"ops": [{"op": "G", "args": [i, 1], "kwargs": [("k", i)], "modes": [0]}, {"op": "H", "args": [2], "modes": [1]}], "edit": j}
        if ty:
            spec["type"] = ty
        add("dumps, edit, dumps again", spec)
    for i, ty in itertools.product(arrays + lists, (None, ("tdm", []))):
        spec = {"ops": [{"op": "G", "args": [i, 1] if i in arrays else [1], "kwargs": [("k", i)], "modes": [0]}, {"op": "H", "args": [2], "modes": [1]}], "inplace": True}
        if ty:
            spec["type"] = ty
        add("dumps, edit in place / replace by fresh arrays, dumps again", spec)
    step = 1
    for i, j in itertools.product(scalars[::step] + arrays[::4], repeat=2):
        add("2 positional", {"ops": [{"op": "G", "args": [i, j], "modes": [1, 0], "npmodes": True}]})
        add("positional + keyword", {"ops": [{"op": "G", "args": [i], "kwargs": [("k", j)], "modes": [2]}]})
    for i, j in itertools.product(lists + scalars[::7], lists + scalars[::5]):
        add("2 keywords / options", {"target": ("g", [("a", i), ("b", j)]), "ops": [{"op": "G", "kwargs": [("k", i), ("l", j)], "modes": [0]}]})
    # modes
    for modes, npm in itertools.product(([0], [3, 1], [0, 1, 2], [17, 8, 1]), (False, True)):
        for noargs in (True, False):
            add("modes", {"ops": [{"op": "G", "noargs": noargs, "modes": modes, "npmodes": npm}, {"op": "H", "noargs": not noargs, "modes": modes[::-1], "npmodes": npm}]})
    # several arrays mixed with keywords: hoisting index arithmetic and A0, A1.. numbering
    # the full grid {absent, name only, with options} x {absent, name only, with options} for target x type (the array
    # declarations are placed after the metadata lines, whichever of them exist)
    tg_ = [None, ("g", []), ("g", [("s", label["7"])])]
    ty_ = [None, ("tdm", []), ("t", [("z", 1)])]
    tt = [(a_, b_) for a_ in tg_ for b_ in ty_]
    arr_sel = arrays
    allpairs = list(itertools.product(arr_sel, repeat=2))
    collide = [i for i in arr_sel if V[i][0] in ("array-collide", "array-edge")]
    tt_first = [(None, None), (tg_[1], None), (None, ty_[2]), (tg_[2], ty_[1])]          # every pair of arrays under these four
    plan = [(pr, m_) for pr in allpairs for m_ in tt_first]
    plan += [(pr, m_) for pr in itertools.product(collide, repeat=2) for m_ in tt if m_ not in tt_first]     # arrays that coincide: under all nine
    plan += [(pr, m_) for pr in allpairs[1::3] for m_ in tt if m_ not in tt_first]                               # the rest of the grid on a third of the pairs
    for (A, B), (tg, ty) in plan:
        spec = {"ops": [{"op": "G", "args": [A, 1], "kwargs": [("U", B), ("s", label["'with space'"])], "modes": [0]}, {"op": "H", "args": [B], "modes": [1]}, {"op": "K", "noargs": True, "modes": [0, 1]}]}
        if tg:
            spec["target"] = tg
        if ty:
            spec["type"] = ty
        add("arrays + keywords + metadata", spec)
    if not ctx.quick:
        for i, j, k in itertools.product(scalars[::2], repeat=3):
            add("3 operations", {"ops": [{"op": "G", "args": [i], "modes": [0]}, {"op": "H", "kwargs": [("k", j)], "modes": [1]}, {"op": "K", "args": [k, i], "modes": [0, 1]}]})
    return specs, fam


def run(ctx):
    common.SCRATCH = ctx.scratch
    specs, fam = build(ctx)
    specs = common.shard(specs, ctx.seed)
    res = pool.pmap(_case, specs, chunk=40)
    Vs = common.Violations(keep=5)
    V = _values()
    for s, r in zip(specs, res):
        if r == "TIMEOUT":
            Vs.add("C09/no-outcome", {"spec": repr(s)}, "timeout")
        elif r is not None:
            Vs.add(r[0], {"spec": repr(s), "labels": describe(s)}, r[1])
    nontrivial = sum(1 for s in specs if any(o.get("args") or o.get("kwargs") for o in s["ops"]))
    cov = {"evaluations": len(specs), "distinct_nontrivial": nontrivial,
           "rule": "programs assembled from the value alphabet (%d values: Python/NumPy ints, floats, complex incl. negative zero, subnormals, 1e+-300, int64 extremes; booleans; quote-free strings; lists of each kind and mixed; "
                   "int/float/complex arrays 1x1..3x3 + edge arrays; 17 real SymPy expressions over overlapping parameter names + 3 with functions) in every position (positional, keyword, target option, type option), "
                   "all pairs, %d sweep values (floats at and around pi multiples / e / 1 / 1/3 / sqrt 2 / powers of ten; strings with line-boundary, control, non-ASCII and token look-alike characters) singly in every position, "
                   "the file interface (dump into / load from one working file per worker) for every value, lists x lists as keywords and options, mode lists as ints and np.int64, with/without args keys, pairs of arrays x 4 metadata variants; thorough adds 3-operation programs. "
                   "non-trivial = program with >= 1 argument; all specs distinct by construction" % (len(V), sum(1 for v in V if v[0].startswith("sweep"))),
           "samples": [describe(s) for s in common.sample(specs, 5)], "exhaustive": True, "by_family": dict(fam), "value_alphabet": len(V)}
    return {"coverage": cov, "violations": Vs.records(),
            "assumptions": ["operations carry either both 'args' and 'kwargs' or neither (as documented for BlackbirdProgram.operations)", "strings are quote-free"]}


def describe(spec):
    V = _values()
    out = []
    for tag in ("target", "type"):
        if spec.get(tag):
            out.append("%s %s(%s)" % (tag, spec[tag][0], ", ".join("%s=%s" % (k, V[i][1]) for k, i in spec[tag][1])))
    for o in spec["ops"]:
        out.append("%s(%s) | %r%s" % (o["op"], ", ".join([V[i][1] for i in o.get("args", [])] + ["%s=%s" % (k, V[i][1]) for k, i in o.get("kwargs", [])]) if not o.get("noargs") else "-", o["modes"], " np" if o.get("npmodes") else ""))
    return " ; ".join(out)


def replay(case):
    import ast
    r = judge(ast.literal_eval(case["spec"]))
    return (r is not None), repr(r)[:400]
