"""Reference parser: token texts of ONE statement -> the model's statement AST.

Independent of the implementation and of the renderer: it is written from the grammar's statement / arguments /
kwarg / vallist rules and from the binding order stated in property C03 (brackets, unary sign, right-associative
**, then * /, then + -).  Used by the grammar-driven part of C02, where statements are enumerated as token
sequences from the .g4 (so that written forms the renderer never produces - `-q0**2`, `2*-x`, `G(1,) | 0` -
are covered)."""
import re

from .denote import FN


class Bad(Exception):
    pass


class P:
    def __init__(self, toks):
        self.t = toks
        self.i = 0

    def peek(self, k=0):
        return self.t[self.i + k] if self.i + k < len(self.t) else None

    def eat(self, want=None):
        if self.i >= len(self.t):
            raise Bad("eof")
        x = self.t[self.i]
        if want is not None and x != want:
            raise Bad("want %s got %s" % (want, x))
        self.i += 1
        return x

    # ---- expressions
    def expr(self):
        v = self.mul()
        while self.peek() in ("+", "-"):
            op = self.eat()
            v = ("bin", op, v, self.mul())
        return v

    def mul(self):
        v = self.pw()
        while self.peek() in ("*", "/"):
            op = self.eat()
            v = ("bin", op, v, self.pw())
        return v

    def pw(self):
        b = self.un()
        if self.peek() == "**":
            self.eat()
            return ("bin", "**", b, self.pw())
        return b

    def un(self):
        if self.peek() in ("+", "-"):
            op = self.eat()
            return ("un", op, self.un())
        return self.prim()

    def prim(self):
        t = self.eat()
        if t == "(":
            v = self.expr()
            self.eat(")")
            return ("grp", v)
        if t in FN:
            self.eat("(")
            v = self.expr()
            self.eat(")")
            return ("fn", t, v)
        if t == "pi":
            return ("pi",)
        if t == "{":
            n = self.eat()
            self.eat("}")
            return ("par", n)
        if t[0].isdigit() or (t[0] in "+-." and len(t) > 1):
            return ("num", t)
        if re.fullmatch(r"q\d+", t):
            return ("reg", int(t[1:]))
        if re.fullmatch(r"[A-Za-z][0-9A-Za-z_]*", t):
            if self.peek() == "[":
                self.eat("[")
                v = self.expr()
                self.eat("]")
                return ("idx", t, v)
            return ("var", t)
        raise Bad("token " + t)

    # ---- values, arguments
    def val(self):
        t = self.peek()
        if t is None:
            raise Bad("eof")
        if t.startswith('"'):
            self.eat()
            return ("str", t[1:-1])
        if t in ("True", "False"):
            self.eat()
            return ("bool", t == "True")
        return self.expr()

    def at_kwarg(self, k=0):
        t = self.peek(k)
        return t is not None and re.fullmatch(r"[A-Za-z][0-9A-Za-z_]*", t) is not None and self.peek(k + 1) == "="

    def arguments(self):
        """arguments : LBRAC (val (COMMA val)*)? COMMA? (kwarg (COMMA kwarg)*)? RBRAC"""
        self.eat("(")
        args, kwargs = [], []
        if self.peek() not in (")", ",", None) and not self.at_kwarg():
            args.append(self.val())
            while self.peek() == "," and self.peek(1) not in (")", None) and not self.at_kwarg(1):
                self.eat(",")
                args.append(self.val())
        if self.peek() == ",":
            self.eat(",")
        if self.peek() != ")":
            while True:
                k = self.eat()
                self.eat("=")
                if self.peek() == "[":
                    self.eat("[")
                    vals = []
                    if self.peek() != "]":
                        vals.append(self.val())
                        while self.peek() == ",":
                            self.eat(",")
                            vals.append(self.val())
                    self.eat("]")
                    kwargs.append((k, ("list", vals)))
                else:
                    kwargs.append((k, self.val()))
                if self.peek() == ",":
                    self.eat(",")
                    continue
                break
        self.eat(")")
        return args, kwargs

    def modes(self, list_bracket):
        """(LBRAC|LSQBRAC)? arrayrow (RBRAC|RSQBRAC)? NEWLINE*  - one reading of the optional brackets"""
        ob = cb = None
        if list_bracket:
            if self.peek() not in ("(", "["):
                raise Bad("no bracket")
            ob = self.eat()
        modes = [self.expr()]
        while self.peek() == ",":
            self.eat(",")
            modes.append(self.expr())
        if self.peek() in (")", "]"):
            cb = self.eat()
        if self.i != len(self.t):
            raise Bad("trailing tokens")
        style = {(None, None): "none", ("[", "]"): "sq", ("(", ")"): "rd", ("[", ")"): "sqrd", ("(", "]"): "rdsq",
                 ("(", None): "open-rd", ("[", None): "open-sq", (None, ")"): "close-rd", (None, "]"): "close-sq"}[(ob, cb)]
        return modes, style

    def statement(self):
        op = self.eat()
        args = None
        kwargs = []
        if self.peek() == "(":
            args, kwargs = self.arguments()
        self.eat("|")
        start = self.i
        readings = []
        for lb in (True, False):
            self.i = start
            try:
                readings.append(self.modes(lb))
            except Bad:
                pass
        if not readings:
            raise Bad("modes")
        modes, style = readings[0]
        return ("stmt", op, args, kwargs, modes, style if style in ("none", "sq", "rd", "sqrd", "rdsq") else "none"), [r[0] for r in readings]


def parse_statement(token_texts):
    """returns (statement AST, list of alternative readings of the mode list (each a list of expression ASTs))"""
    return P(list(token_texts)).statement()
