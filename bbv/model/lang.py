"""Reference model of Blackbird, part 1: script AST (plain tuples) and the renderer AST -> text.

The renderer is the only place where the model chooses text for an AST; it always puts a space
after commas (the lexer has a SEQUENCE token `1,2`) and brackets every nested binary/unary operand,
so the text has exactly one reading whatever the precedence rules are (precedence is C03's subject
and is checked there against an independent statement of it).

AST
  expr   : ('num',text) ('pi',) ('var',name) ('reg',n) ('par',name) ('idx',name,expr)
           ('un',op,e) ('bin',op,a,b) ('fn',name,e) ('grp',e)
  nonnum : ('str',s) ('bool',b)         list value: ('list',[vals])
  items  : ('decl',type,name,val) ('arr',type,name,shape|None,rows)
           (an array whose only element is ('par',P) and that declares a shape is the whole-array parameter form)
           ('stmt',op,args|None,kwargs,modes,style) ('for',type,var,header,body) ('blank',)
  header : ('range',a,b,c|None) | ('vals',[vals],style)
  script : dict(name, version, target=(dev,args|None,kwargs)|None, type=(...)|None,
                includes=[path,...], items=[...])
"""
FUNCS = ["sqrt", "sin", "cos", "tan", "arcsin", "arccos", "arctan", "sinh", "cosh", "tanh",
         "arcsinh", "arccosh", "arctanh", "exp", "log"]

def N(t):
    """numeric literal token; a leading sign is only legal inside a COMPLEX token (use U('-', N(..)) otherwise)"""
    t = str(t)
    assert t[0] not in "+-" or t[-1] in "jJ", "signed non-complex literal %r: use U('-', N(...))" % t
    return ("num", t)
V = lambda n: ("var", n)
B = lambda o, a, b: ("bin", o, a, b)
U = lambda o, e: ("un", o, e)
F = lambda f, e: ("fn", f, e)
P = lambda n: ("par", n)
Q = lambda n: ("reg", n)
PI = ("pi",)
S = lambda s: ("str", s)
BOOL = lambda b: ("bool", b)
L = lambda *xs: ("list", list(xs))
IDX = lambda a, e: ("idx", a, e)


def rexpr(e):
    k = e[0]
    if k == "num":
        return e[1]
    if k == "pi":
        return "pi"
    if k == "var":
        return e[1]
    if k == "reg":
        return "q%d" % e[1] if isinstance(e[1], int) else "q" + e[1]
    if k == "par":
        return "{%s}" % e[1]
    if k == "idx":
        return "%s[%s]" % (e[1], rexpr(e[2]))
    if k == "grp":
        return "(%s)" % rexpr(e[1])
    if k == "fn":
        return "%s(%s)" % (e[1], rexpr(e[2]))
    if k == "un":
        return e[1] + rexpr(("grp", e[2]) if e[2][0] in ("bin", "un") else e[2])
    if k == "bin":
        a, b = e[2], e[3]
        ra = rexpr(("grp", a)) if a[0] in ("bin", "un") else rexpr(a)
        rb = rexpr(("grp", b)) if b[0] in ("bin", "un") else rexpr(b)
        sp = "" if e[1] == "**" else " "
        return ra + sp + e[1] + sp + rb
    raise ValueError(e)


def rval(v):
    if v[0] == "str":
        return '"%s"' % v[1]
    if v[0] == "bool":
        return "True" if v[1] else "False"
    if v[0] == "list":
        return "[" + ", ".join(rval(x) for x in v[1]) + "]"
    return rexpr(v)


def rargs(args, kwargs):
    parts = [rval(a) for a in (args or [])] + ["%s=%s" % (k, rval(v)) for k, v in kwargs]
    return "(" + ", ".join(parts) + ")"


def rmodes(modes, style):
    m = ", ".join(rexpr(x) for x in modes)
    return {"none": m, "sq": "[" + m + "]", "rd": "(" + m + ")", "sqrd": "[" + m + ")", "rdsq": "(" + m + "]"}[style]


def rstmt(it):
    _, op, args, kwargs, modes, style = it
    a = "" if args is None else rargs(args, kwargs)
    return "%s%s | %s" % (op, a, rmodes(modes, style))


def ritem(it, indent="    "):
    """lines of one top-level item"""
    k = it[0]
    if k == "blank":
        return [""]
    if k == "decl":
        return ["%s %s = %s" % (it[1], it[2], rval(it[3]))]
    if k == "arr":
        sh = "" if it[3] is None else "[%s]" % ", ".join(map(str, it[3]))
        out = ["%s array %s%s =" % (it[1], it[2], sh)]
        for row in it[4]:
            out.append(indent + ", ".join(rexpr(x) for x in row))
        return out
    if k == "stmt":
        return [rstmt(it)]
    if k == "for":
        _, t, v, h, body = it
        if h[0] == "range":
            hs = ":".join(str(x) for x in h[1:] if x is not None)
        else:
            inner = ", ".join(rval(x) for x in h[1])
            hs = {"none": inner, "sq": "[" + inner + "]", "rd": "(" + inner + ")"}[h[2]]
        out = ["for %s %s in %s" % (t, v, hs)]
        for st in body:
            out.append(indent + rstmt(st))
        return out
    raise ValueError(it)


def rmeta(sc):
    out = ["name " + sc["name"], "version " + sc["version"]]
    for key in ("target", "type"):
        t = sc.get(key)
        if t:
            dev, args, kwargs = t
            out.append(key + " " + dev + ("" if args is None else " " + rargs(args, kwargs)))
    for inc in sc.get("includes", []):
        out.append('include "%s"' % inc)
    return out


def render_lines(sc, indent="    "):
    out = rmeta(sc)
    out.append("")
    for it in sc["items"]:
        out.extend(ritem(it, indent))
    return out


def render(sc, indent="    ", nl="\n", final_newline=True):
    return nl.join(render_lines(sc, indent)) + (nl if final_newline else "")


def names_used(e):
    """variable / array names an expression, value, or item reads"""
    out = set()

    def w(t):
        if isinstance(t, tuple):
            if t and t[0] == "var":
                out.add(t[1])
            elif t and t[0] == "idx":
                out.add(t[1])
                w(t[2])
            elif t and t[0] in ("num", "str", "bool", "par", "reg", "pi"):
                return
            else:
                for x in t[1:]:
                    w(x)
        elif isinstance(t, list):
            for x in t:
                w(x)
    w(e)
    return out
