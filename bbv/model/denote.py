"""Reference model of Blackbird, part 2: denotation AST -> expected program, and the comparator
model-value vs implementation-value.

Walks the AST the enumerator generated (never parses text), with exact ints, IEEE doubles via
math/cmath, literals converted through fractions.Fraction.  Implementation-only failure modes
(NumPy wrap-around, nan, inf, domain errors) are not modelled: a case whose exact value leaves
the properties' stated domain raises OutOfDomain and is dropped by the enumerators.
"""
import cmath
import math
from fractions import Fraction


class OutOfDomain(Exception):
    pass


class Refused(Exception):
    """The model says the script is ill-formed (undefined name, wrong include call, ...)."""


class Sym:
    """symbolic value: tree over ('p',name) ('q',n), constants and operators"""

    def __init__(s, tree):
        s.tree = tree

    def syms(s):
        out = set()

        def w(t):
            if isinstance(t, tuple):
                if t[0] in ("p", "q"):
                    out.add(t)
                else:
                    for x in t[1:]:
                        w(x)
        w(s.tree)
        return out

    def ev(s, env):
        def w(t):
            if isinstance(t, tuple):
                if t[0] in ("p", "q"):
                    return env[t]
                if t[0] == "un":
                    return -w(t[2]) if t[1] == "-" else w(t[2])
                if t[0] == "bin":
                    return arith(t[1], w(t[2]), w(t[3]))
                if t[0] == "fn":
                    return func(t[1], w(t[2]))
            return t
        return w(s.tree)

    def bind(s, penv):
        """substitute parameter values (dict name -> value); returns a value or a smaller Sym"""
        def w(t):
            if isinstance(t, tuple):
                if t[0] == "p" and t[1] in penv:
                    return penv[t[1]]
                if t[0] in ("p", "q"):
                    return Sym(t)
                if t[0] == "un":
                    v = w(t[2])
                    if isinstance(v, Sym):
                        return Sym(("un", t[1], v.tree))
                    return -v if t[1] == "-" else v
                if t[0] == "bin":
                    return arith(t[1], w(t[2]), w(t[3]))
                if t[0] == "fn":
                    return func(t[1], w(t[2]))
            return t
        return w(s.tree)

    def __repr__(s):
        return "Sym(%r)" % (s.tree,)


class Arr:
    def __init__(s, kind, rows):
        s.kind = kind
        s.rows = rows

    @property
    def shape(s):
        return (len(s.rows), len(s.rows[0]))

    def flat(s):
        return [x for r in s.rows for x in r]

    def __repr__(s):
        return "Arr(%s,%r)" % (s.kind, s.rows)


NEGPOW = [0]   # counts int ** negative-int evaluations (kept as their own class, finding F20)


def isint(v):
    return isinstance(v, int) and not isinstance(v, bool)


def arith(op, a, b):
    if isinstance(a, Sym) or isinstance(b, Sym):
        return Sym(("bin", op, a.tree if isinstance(a, Sym) else a, b.tree if isinstance(b, Sym) else b))
    try:
        if op == "+":
            r = a + b
        elif op == "-":
            r = a - b
        elif op == "*":
            r = a * b
        elif op == "/":
            r = a / b
        elif op == "**":
            if isint(a) and isint(b) and b < 0:
                if a == 0:
                    raise OutOfDomain("0**neg")
                if abs(a) > 1 and -b * math.log2(abs(a)) > 1100:
                    raise OutOfDomain("underflow")      # (before computing it: 2**-(3**27))
                r = Fraction(a) ** b
                NEGPOW[0] += 1
                return float(r)   # kind of a negative integer power is left open (int or float), see C03.agree
            if isint(a) and isint(b) and abs(a) > 1 and b * math.log2(abs(a)) > 64:
                raise OutOfDomain("int64")      # (before computing it: 3**3**3**3 has 3.6e12 digits)
            if isinstance(a, (int, float)) and not isinstance(b, complex) and a < 0 and float(b) != int(b):
                raise OutOfDomain("real->complex")
            if (isinstance(a, complex) or isinstance(b, complex)) and a != 0:
                # Python's complex power forms |a|**Re(b) and exp(-Im(b)*arg a) separately, and one of them may
                # underflow or overflow although the product is an ordinary number: then take exp(b log a)
                try:
                    r = a ** b
                except OverflowError:
                    r = 0j
                if r == 0 or not cmath.isfinite(r):
                    r = cmath.exp(b * cmath.log(a))
                    if r == 0:
                        raise OutOfDomain("underflow")
            else:
                r = a ** b
        else:
            raise ValueError(op)
    except (ZeroDivisionError, OverflowError):
        raise OutOfDomain(op)
    if isint(r) and abs(r) >= 2 ** 63:
        raise OutOfDomain("int64")
    if isinstance(r, float) and not math.isfinite(r):
        raise OutOfDomain("nonfinite")
    if isinstance(r, complex):
        if not cmath.isfinite(r):
            raise OutOfDomain("nonfinite")
        if not isinstance(a, complex) and not isinstance(b, complex):
            raise OutOfDomain("real->complex")
    return r


FN = {"sqrt": (math.sqrt, cmath.sqrt), "exp": (math.exp, cmath.exp), "log": (math.log, cmath.log),
      "sin": (math.sin, cmath.sin), "cos": (math.cos, cmath.cos), "tan": (math.tan, cmath.tan),
      "arcsin": (math.asin, cmath.asin), "arccos": (math.acos, cmath.acos), "arctan": (math.atan, cmath.atan),
      "sinh": (math.sinh, cmath.sinh), "cosh": (math.cosh, cmath.cosh), "tanh": (math.tanh, cmath.tanh),
      "arcsinh": (math.asinh, cmath.asinh), "arccosh": (math.acosh, cmath.acosh), "arctanh": (math.atanh, cmath.atanh)}


def func(name, v):
    if isinstance(v, Sym):
        return Sym(("fn", name, v.tree))
    try:
        r = FN[name][1 if isinstance(v, complex) else 0](v)
    except (ValueError, OverflowError, ZeroDivisionError):
        raise OutOfDomain(name)
    if isinstance(r, float) and not math.isfinite(r):
        raise OutOfDomain("nonfinite")
    return r


def lit(text):
    """value of a numeric literal token, through exact rational arithmetic rounded once"""
    try:
        return _lit(text)
    except OverflowError:
        raise OutOfDomain("literal overflows a double")


def _lit(text):
    t = text
    if t[-1] in "jJ":
        body = t[:-1]
        split = None
        for i in range(len(body) - 1, 0, -1):
            if body[i] in "+-" and body[i - 1] not in "eE":
                split = i
                break
        if split is None:
            return complex(0.0, float(Fraction(body)))
        return complex(float(Fraction(body[:split])), float(Fraction(body[split:])))
    if all(c.isdigit() for c in t):
        return int(t)
    return float(Fraction(t))


CASTS = {"int": int, "float": float, "complex": complex, "bool": bool, "str": str}


def is_pname(n):
    return n[0] == "p" and n[1:].isdigit() and len(n) > 1


class Model:
    """Denotation of one script.  `library` maps include path -> script AST (for includes)."""

    def __init__(s, library=None, strict_negpow=True):
        s.env = {}
        s.params = []
        s.ops = []
        s.modes = set()
        s.ptypes = set()
        s.tdm = False
        s.library = library or {}
        s.includes = {}     # program name -> Model of the included script
        s.strict_negpow = strict_negpow
        s.negpow = False     # an int ** negative-int occurred (own class, see F20)

    # -- expressions
    def ev(s, e):
        k = e[0]
        if k == "num":
            return lit(e[1])
        if k == "pi":
            return math.pi
        if k == "var":
            if e[1] not in s.env:
                raise Refused("undefined " + e[1])
            if e[1] in s.ptypes:
                return ("pname", e[1])
            return s.env[e[1]]
        if k == "reg":
            return Sym(("q", int(e[1])))
        if k == "par":
            if e[1] not in s.params:
                s.params.append(e[1])
            return Sym(("p", e[1]))
        if k == "idx":
            i = s.ev(e[2])
            if e[1] not in s.env:
                raise Refused("undefined " + e[1])
            flat = s.env[e[1]].flat()
            if not isint(i) or not -len(flat) <= i < len(flat):
                raise OutOfDomain("index out of range")     # not a valid script: outside every property's quantifier
            return flat[i]
        if k == "grp":
            return s.ev(e[1])
        if k == "un":
            v = s.ev(e[2])
            if isinstance(v, Sym):
                return Sym(("un", e[1], v.tree))
            return -v if e[1] == "-" else v
        if k == "bin":
            n0 = NEGPOW[0]
            r = arith(e[1], s.ev(e[2]), s.ev(e[3]))
            if NEGPOW[0] != n0:
                s.negpow = True
            return r
        if k == "fn":
            return func(e[1], s.ev(e[2]))
        raise ValueError(e)

    def val(s, v):
        if v[0] == "str":
            return v[1]
        if v[0] == "bool":
            return v[1]
        if v[0] == "list":
            return [s.val(x) for x in v[1]]
        return s.ev(v)

    def args(s, args, kwargs):
        a = [s.val(x) for x in (args or [])]
        d = {}
        for k, v in kwargs:
            d[k] = s.val(v)
        return a, list(d.items())

    # -- statements
    def stmt(s, it):
        _, op, args, kwargs, modes, style = it
        ms = [s.ev(m) for m in modes]
        for m in ms:
            if not isint(m):
                raise Refused("non-integer mode")
        a, kw = (None, None) if args is None else s.args(args, kwargs)
        if op in s.includes:
            sub = s.includes[op]
            if len(ms) != len(sub.modes):
                raise Refused("include arity")
            if a:
                pass  # positional arguments of an include call: unspecified by the property; never generated
            kwd = dict(kw or [])
            if set(kwd) != set(sub.params):
                raise Refused("include keywords")
            mm = dict(zip(sorted(sub.modes), ms))
            for o in sub.ops:
                def b(v):
                    if isinstance(v, Sym):
                        return v.bind(kwd)
                    if isinstance(v, list):
                        return [b(x) for x in v]
                    return v
                s.ops.append({"op": o["op"], "args": None if o["args"] is None else [b(x) for x in o["args"]],
                              "kwargs": None if o["kwargs"] is None else [(k, b(v)) for k, v in o["kwargs"]],
                              "modes": [mm[m] for m in o["modes"]]})
            s.modes |= set(ms)
            return
        s.ops.append({"op": op, "args": a, "kwargs": kw, "modes": ms})
        s.modes |= set(ms)

    def cast(s, t, v):
        if isinstance(v, Sym):
            return v
        return CASTS[t](v)

    def run(s, sc):
        s.name = sc["name"]
        s.version = sc["version"]
        s.target = {"name": None, "options": []}
        s.type = {"name": None, "options": []}
        for key, dst in (("target", s.target), ("type", s.type)):
            t = sc.get(key)
            if t:
                dst["name"] = t[0]
                if t[1] is not None:
                    dst["options"] = s.args(t[1], t[2])[1]
        s.tdm = (s.type["name"] == "tdm")
        s.params = []   # parameters written in metadata are outside every property's quantifier
        for path in sc.get("includes", []):
            sub_ast = s.library[(sc["name"], path)] if (sc["name"], path) in s.library else s.library[path]   # (includer, string) wins: the same string may name different files in different directories
            sub = Model(s.library).run(sub_ast)
            s.includes.update(sub.includes)
            s.includes[sub.name] = sub
        for it in sc["items"]:
            k = it[0]
            if k == "decl":
                s.env[it[2]] = s.cast(it[1], s.val(it[3]))
            elif k == "arr":
                rows = it[4]
                if it[3] is not None and len(rows) == 1 and len(rows[0]) == 1 and rows[0][0][0] == "par":
                    pn = rows[0][0][1]
                    r, c = it[3]
                    names = [["%s_%d_%d" % (pn, i, j) for j in range(c)] for i in range(r)]
                    for row in names:
                        for n in row:
                            if n not in s.params:
                                s.params.append(n)
                    s.env[it[2]] = Arr(it[1], [[Sym(("p", n)) for n in row] for row in names])
                else:
                    vals = [[s.ev(x) for x in r] for r in rows]
                    s.env[it[2]] = Arr(it[1], [[(x if isinstance(x, Sym) else s.cast(it[1], x)) for x in r] for r in vals])
                if s.tdm and is_pname(it[2]):
                    s.ptypes.add(it[2])
            elif k == "stmt":
                s.stmt(it)
            elif k == "for":
                _, t, v, h, body = it
                if h[0] == "range":
                    vals = list(range(*[x for x in h[1:] if x is not None]))
                else:
                    vals = [s.val(x) for x in h[1]]
                for x in vals:
                    s.env[v] = s.cast(t, x)
                    for st in body:
                        s.stmt(st)
                s.env.pop(v, None)
            elif k == "blank":
                pass
            else:
                raise ValueError(it)
        return s


# ---------------------------------------------------------------------------------------
# comparator: model value vs implementation value


def _env(S, i):
    from bbv.core.observe import PTS
    return {t: PTS[(j + i) % len(PTS)] + 0.113 * i + 0.0171 * j for j, t in enumerate(sorted(S, key=str))}


def mveq(exp, got, rtol=1e-12, sym_rtol=1e-9, regs_in_lists_raw=False):
    """exp: model value; got: implementation value.  A register expression must arrive as a RegRefTransform when it
    is an argument itself; as an element of a list-valued keyword the properties do not say (`regs_in_lists_raw`)."""
    import numpy as np
    import sympy as sym
    from bbv.core.observe import kind, close
    if isinstance(exp, tuple) and exp and exp[0] == "pname":
        return isinstance(got, str) and got == exp[1]
    if isinstance(exp, list):
        return isinstance(got, list) and len(exp) == len(got) and all(mveq(a, b, rtol, sym_rtol, True) for a, b in zip(exp, got))
    if isinstance(exp, Arr):
        if not isinstance(got, np.ndarray) or tuple(got.shape) != exp.shape:
            return False
        if not any(isinstance(x, Sym) for x in exp.flat()):
            if got.dtype.kind != {"int": "i", "float": "f", "complex": "c"}[exp.kind]:
                return False
        return all(mveq(a, b, rtol, sym_rtol, True) for a, b in zip(exp.flat(), got.flatten().tolist()))
    if isinstance(exp, Sym):
        S = exp.syms()
        regs = sorted(t[1] for t in S if t[0] == "q")
        if regs and type(got).__name__ == "RegRefTransform":
            if sorted(got.regrefs) != regs:
                return False
            # measurement vectors: 3 generic points, then each register in turn at the special outcomes 0, 0.0, 1, -1, 2
            # (integers as photon counts are) with the others generic, then all registers 0 and all registers 1
            envs = [_env(S, i) for i in range(3)]
            qs = sorted(t for t in S if t[0] == "q")
            for t in qs:
                for z in (0, 0.0, 1, -1, 2):
                    e = dict(envs[0])
                    e[t] = z
                    envs.append(e)
            for z in (0, 1):
                e = dict(envs[1])
                e.update({t: z for t in qs})
                envs.append(e)
            for env in envs:
                try:
                    x = exp.ev(env)
                except (OutOfDomain, ZeroDivisionError, OverflowError):
                    continue
                try:
                    y = complex(got.func(*[env[("q", n)] for n in got.regrefs]))
                except (OverflowError, ZeroDivisionError):
                    continue        # an intermediate result leaves the double range at this point: not a point to compare at
                except Exception:  # noqa
                    return False
                if not cmath.isfinite(y) and abs(x) > 1e150:
                    continue
                if not close(x, y, sym_rtol, 1e-12):
                    return False
            return True
        if regs and not regs_in_lists_raw:
            return False
        if not isinstance(got, sym.Expr):
            return False
        names = sorted(("q%d" % t[1]) if t[0] == "q" else t[1] for t in S)
        if sorted(str(x) for x in got.free_symbols) != names:
            return False
        for i in range(3):
            env = _env(S, i)
            try:
                x = exp.ev(env)
            except OutOfDomain:
                continue
            try:
                y = complex(got.subs({sym.Symbol(("q%d" % t[1]) if t[0] == "q" else t[1]): v for t, v in env.items()}).evalf(30))
            except Exception:  # noqa
                return False
            if not close(x, y, sym_rtol, 1e-12):
                return False
        return True
    ke, kg = kind(exp), kind(got)
    if ke != kg:
        return False
    if ke in "fc":
        return close(exp, got, rtol)
    if ke == "i":
        return int(exp) == int(got)
    return exp == got


def compare(m, p, rtol=1e-12, check_params=True, check_vars=False):
    """model `m` (a Model after run) vs implementation program `p`; returns list of differences"""
    from bbv.core.observe import kind
    errs = []
    if p.name != m.name:
        errs.append("name")
    if p.version != m.version:
        errs.append("version")
    for tag, pm, mm in (("target", p.target, m.target), ("type", p.programtype, m.type)):
        if pm["name"] != mm["name"]:
            errs.append(tag + "-name")
        if list(pm["options"]) != [k for k, _ in mm["options"]] or not all(mveq(v, pm["options"][k], rtol) for k, v in mm["options"]):
            errs.append(tag + "-options")
    if len(p.operations) != len(m.ops):
        errs.append("nops %d vs %d" % (len(p.operations), len(m.ops)))
        return errs
    for i, (po, mo) in enumerate(zip(p.operations, m.ops)):
        if po["op"] != mo["op"]:
            errs.append("op%d-name" % i)
        if len(po["modes"]) != len(mo["modes"]) or not all(kind(a) == "i" and int(a) == b for a, b in zip(po["modes"], mo["modes"])):
            errs.append("op%d-modes" % i)
        if mo["args"] is None:
            if po.get("args") or po.get("kwargs"):
                errs.append("op%d-args-present" % i)
        else:
            if len(po.get("args", [])) != len(mo["args"]) or not all(mveq(a, b, rtol) for a, b in zip(mo["args"], po.get("args", []))):
                errs.append("op%d-args" % i)
            pk = list(po.get("kwargs", {}).items())
            if [k for k, _ in pk] != [k for k, _ in mo["kwargs"]] or not all(mveq(v, po["kwargs"][k], rtol) for k, v in mo["kwargs"]):
                errs.append("op%d-kwargs" % i)
    try:
        pmodes = set(int(x) for x in p.modes)
    except Exception:  # noqa
        pmodes = None
    if pmodes != m.modes:
        errs.append("modes-set")
    if len(p) != len(m.ops):
        errs.append("len")
    if check_params and set(p.parameters) != set(m.params):
        errs.append("parameters %s vs %s" % (sorted(p.parameters), sorted(m.params)))
    if check_vars:
        pv = p.variables
        for k, v in m.env.items():
            if k not in pv or not mveq(v, pv[k], rtol):
                errs.append("var-" + k)
        extra = set(pv) - set(m.env)
        if extra:
            errs.append("var-extra-" + ",".join(sorted(extra)))
    return errs
