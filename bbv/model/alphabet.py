"""Shared finite alphabets (DESIGN appendix A).  Every list is ordered simplest first."""
from .lang import N, V, B, U, F, P, Q, PI, S, BOOL, L, IDX, names_used

# --- declarations available to scripts (name -> item)
DECLS = [
    ("decl", "int", "n", N("3")),
    ("decl", "float", "x", N("0.25")),
    ("decl", "complex", "z", B("-", N("1"), N("2j"))),
    ("decl", "bool", "b", BOOL(True)),
    ("decl", "str", "s", S("hi")),
    ("arr", "float", "A", None, [[N("1.5"), N("2.5")], [U("-", N("3.0")), N("4.25")]]),
    ("arr", "int", "B", (1, 2), [[N("5"), U("-", N("6"))]]),
    ("arr", "float", "p1", None, [[N("0.5"), U("-", N("1.5"))]]),      # a p-array in tdm programs, an ordinary array elsewhere
    ("arr", "complex", "W", (1, 1), [[N("0.5j")]]),      # a one-element array is still an array
    ("arr", "float", "T", None, [[P("a"), N("1.5")], [N("2.5"), P("alpha")]]),
    ("arr", "complex", "U", None, [[N("1+2j"), N("0.5j"), N("3.0")], [U("-", N("1j")), N("2-1j"), N("0.25")]]),
]
DECL_BY_NAME = {d[2]: d for d in DECLS}

# --- argument shapes (A.1); each entry: (class, ast)
ARG_SHAPES = [
    ("int", N("1")), ("int", U("-", N("2"))), ("int", N("007")), ("int", N("1099511627776")), ("int", V("n")),
    ("int", B("+", B("*", V("n"), N("2")), N("1"))), ("int", B("**", N("2"), N("5"))), ("int", IDX("B", N("1"))),
    ("float", N("0.5")), ("float", U("-", N("0.25"))), ("float", N("1e-7")), ("float", N("1.5e10")),
    ("float", B("+", N("0.1"), N("0.2"))), ("float", B("/", N("1"), N("3"))), ("float", B("/", N("7"), N("2"))),
    ("float", V("x")), ("float", B("**", V("x"), N("2"))), ("float", F("sqrt", V("x"))), ("float", B("*", N("2"), PI)),
    ("float", IDX("A", N("1"))), ("float", IDX("A", V("n"))), ("float", U("-", N("0.0"))), ("float", N("123456789.123456789")),
    ("complex", N("1+2j")), ("complex", N("-1-2j")), ("complex", N("0.5j")), ("complex", N("1.5e1-2.5e-1j")),
    ("complex", V("z")), ("complex", F("exp", V("z"))), ("complex", N("1-0j")), ("complex", N("-0.0-2j")),
    ("bool", BOOL(True)), ("bool", BOOL(False)), ("bool", V("b")),
    ("str", S("s")), ("str", S("with space")), ("str", V("s")),
    # strings that look like other literals / names
    ("str", S("caf\u00e9 \u03c0/2")), ("str", S("a\\b\\n")), ("str", S("a#b")), ("str", S("True")), ("str", S("1.5")), ("str", S("n")), ("str", S("x=1, y")), ("str", S("1,2;a,b")), ("str", S("two  blanks,    four, tab\tinside")), ("str", S("a\x0bb\x0cc\x1dd\x85e\u2028f\u2029g")),
    ("array", V("A")), ("array", V("B")), ("array", V("U")), ("array-1x1", V("W")), ("array-1x1", IDX("W", N("0"))), ("array-p-name", V("p1")), ("array-p-name", IDX("p1", N("1"))), ("array-with-parameters", V("T")), ("array-with-parameters", IDX("T", N("3"))),
    ("param", P("a")), ("param", U("-", P("a"))), ("param", B("*", N("2"), P("a"))), ("param", B("+", P("a"), P("b"))),
    ("param", B("**", P("a"), N("2"))), ("param", B("/", N("1"), P("a"))), ("param", B("/", P("a"), P("b"))),
    ("param", B("-", B("*", P("a"), P("b")), N("1"))), ("param", B("+", P("alpha"), P("a"))),
    ("param", B("*", N("1e-7"), P("e"))), ("param", B("-", P("a_1"), P("a"))), ("param", B("*", P("x1"), V("x"))),
    # a unary minus in front of a power (SymPy prints -a**2 for -(a**2); in Blackbird the sign binds tighter than **)
    ("param", U("-", B("**", P("a"), N("2")))), ("param", B("*", U("-", B("**", P("a"), N("3"))), P("b"))), ("param", U("-", B("**", B("+", P("a"), N("1")), N("2")))),
    # parameter names that look like registers (q1a), constants (pix), functions (sqrt2) or p-arrays (p0)
    ("param", B("-", P("q1a"), P("a"))), ("param", B("*", P("q2_0"), P("pix"))), ("param", B("+", P("sqrt2"), P("p0"))),
    # parameter names that mean something to the host language or to SymPy
    ("param", B("+", P("lambda"), P("E"))), ("param", B("*", P("I"), B("-", P("S"), N("2")))), ("param", B("/", P("None"), P("is"))),
    # parameter names that coincide with the names the serialiser gives to hoisted arrays (A0, A1, ...)
    ("param", B("-", P("A0"), B("*", N("2"), P("A1")))),
    ("reg", Q(0)), ("reg", B("*", N("2"), Q(0))), ("reg", B("+", Q(0), Q(1))), ("reg", B("-", Q(1), B("*", Q(0), Q(3)))),
    ("reg", B("**", B("**", B("-", Q(0), Q(1)), N("2")), N("0.5"))),      # an even power raised to a fractional power (|q0 - q1| as it is usually written)
    ("reg", B("/", Q(1), Q(0))), ("reg", B("-", N("1"), Q(10))), ("reg", B("*", V("x"), Q(0))), ("reg", U("-", B("**", Q(0), N("2")))),
]

# keyword-only list shapes
KW_LISTS = [
    L(N("1"), N("2")), L(N("0.5"), U("-", N("1"))), L(BOOL(True), BOOL(False)), L(S("a"), S("b")), L(N("1+2j")),
    L(V("n"), V("x")), L(), L(U("-", N("1"))),
    L(N("1-2j"), N("0.5j"), N("-3-0.25j"), N("2+0j")),      # complex numbers of every sign pattern inside a list
    L(S("caf\u00e9 \u03c0"), S("a\\b\\n"), S("tab\there"), S("a#b")),       # strings with non-ASCII, backslash, tab and comment characters inside a list
]
KW_LISTS_T = [L(P("a"), N("1")), L(Q(0))]

MODE_FORMS = [
    ("none", [N("0")]), ("sq", [N("0"), N("1")]), ("rd", [N("2"), N("0")]), ("none", [N("1"), N("2")]),
    ("sq", [N("3")]), ("rd", [N("1")]), ("none", [V("n")]), ("sq", [B("-", V("n"), N("1")), V("n")]),
    ("sqrd", [N("0"), N("2")]), ("rdsq", [N("1"), N("0")]),
]

METAS = [
    dict(name="prog", version="1.0"),
    dict(name="p_2", version="10.25", target=("X8_01", [], [("shots", N("10"))])),
    dict(name="t", version="1.0", target=("g", None, [])),
    dict(name="m4", version="0.0", target=("g", [], [("l", L(N("1"), N("2"))), ("s", S("a")), ("f", N("0.5")), ("c", N("1+2j")), ("b", BOOL(True))])),
    dict(name="m5", version="1.0", type=("tdm", [], [("temporal_modes", N("2")), ("copies", B("*", N("2"), N("5")))])),
    dict(name="m6", version="1.0", target=("TD2", None, []), type=("tdm", None, [])),
    dict(name="m7", version="1.0", target=("x.y_1", [], []), type=("other", [], [("k", U("-", N("1.5")))])),
    dict(name="m7s", version="1.0", target=("g", [], [("s", S("caf\u00e9 \\n")), ("l", L(S("a\\b"), S("tab\there")))]), type=("t", [], [("w", S("C:\\x")), ("z", N("0")), ("f", BOOL(False)), ("e", S(""))])),
    dict(name="m8", version="1.0", target=("g", [], [("a", L(N("1"), N("2"))), ("b", L(N("3"))), ("c", L(S("x"), BOOL(False)))]), type=("t", [], [("d", L(N("0.5"))), ("e", L(N("1"), N("2")))])),
    dict(name="m4n", version="1.0", target=("g", [], [("c", N("1-2j")), ("d", N("-0.5-0.25j")), ("z", N("0")), ("f", BOOL(False)), ("e", S("")), ("x", N("0.0"))]), type=("t", [], [("l", L(N("-1-2j"), N("0.5j"))), ("n", N("0"))])),
    # the remaining cells of the {absent, name only, with options} x {absent, name only, with options} grid for target x type
    dict(name="m9", version="1.0", target=("g", [], [("shots", N("10")), ("s", S("a"))]), type=("sampling", None, [])),
    dict(name="m10", version="1.0", target=("g", None, []), type=("t", [], [("k", N("2"))])),
    dict(name="m11", version="1.0", type=("plain", None, [])),
    # version numbers whose text is not the shortest form of their value
    dict(name="v_1", version="1.10"), dict(name="v2", version="02.50", target=("g", None, [])), dict(name="v3", version="1.5e1"),
]


def needs(ast):
    return names_used(ast)


def near_special_floats():
    """decimal texts of doubles at and around values a serialiser might be tempted to prettify or round:
    multiples of pi, e, 1, 1/3, sqrt(2), powers of ten - each exactly, one ulp-scale step away, and at relative
    distances 1e-9 .. 1e-4, plus their roundings to 2-8 decimals"""
    import math
    specials = [math.pi / 4, math.pi / 2, math.pi, 2 * math.pi, math.e, 1.0, 1 / 3, 2 ** 0.5, 10.0, 100.0, 0.1, 0.001]
    rel = [0.0, 2e-16, -2e-16, 1e-9, -1e-9, 1e-6, -1e-6, 9e-6, -9e-6, 1e-4, -1e-4]
    out = []
    for s_ in specials:
        for r in rel:
            out.append(repr(s_ * (1 + r)))
        for d in (2, 4, 5, 6, 8, 12):
            out.append(repr(round(s_, d)))
    # whole multiples k*s of the same specials and the doubles directly next to them (one ulp up / down): a quotient such
    # as v/pi is rounded, so "is a multiple of" tests that hold for the exact multiple may hold for its neighbours too
    for s_ in (math.pi, math.pi / 2, math.e, 1 / 3, 2 ** 0.5, 0.1):
        for k in range(2, 70):
            v = k * s_
            out.extend([repr(v), repr(math.nextafter(v, math.inf)), repr(math.nextafter(v, -math.inf))])
    seen = set()
    res = []
    for t in out:
        if t not in seen and "e" not in t and float(t) != 0.0:
            seen.add(t)
            res.append(t)
    return res
