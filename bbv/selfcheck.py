"""Smoke test run by MANIFEST.setup_cmd: the framework imports, reads the grammar, and the
reference model agrees with the implementation on one script."""
import os
import sys

repo = os.environ.get("BBV_REPO", "/repo")
sys.path.insert(0, os.path.join(repo, "blackbird_python"))
os.environ.setdefault("BBV_REPO", repo)
import warnings
warnings.simplefilter("ignore")


def main():
    from bbv.g4 import reader, lexnfa, cfg
    from bbv.model import lang, denote, alphabet
    import blackbird
    _, lx, ps = reader.read()
    assert len(ps) >= 30 and len(lx) >= 60, (len(ps), len(lx))
    L = lexnfa.RefLexer()
    assert [t[0] for t in L.tokens("name a\n")] == ["PROGNAME", "NAME", "NEWLINE"]
    E = cfg.Earley(cfg.build(ps))
    assert E.recognize("PROGNAME NAME NEWLINE VERSION FLOAT EOF".split())[0]
    sc = dict(alphabet.METAS[1], items=[alphabet.DECLS[0], ("stmt", "G", [lang.V("n"), lang.N("0.5")], [("k", lang.S("a"))], [lang.N("0"), lang.N("1")], "sq")])
    p = blackbird.loads(lang.render(sc))
    assert denote.compare(denote.Model().run(sc), p) == []
    print("bbv selfcheck ok")


if __name__ == "__main__":
    main()
