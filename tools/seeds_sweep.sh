#!/bin/bash
# quick tier of every check under several VERIF_SEED values; any non-zero exit is printed
for seed in ${@:-1 2 3 7 11}; do
  echo "=== VERIF_SEED=$seed"
  VERIF_SEED=$seed tools/run_all.sh quick | grep -v " rc=0 " 
done
echo done
