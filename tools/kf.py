#!/venv/bin/python
"""Maintain known_findings.json (by hand, never at check run time).
   tools/kf.py fixed <prop> <commit> <key> <what failed>
   tools/kf.py open  <prop> <key> <input> <what>"""
import json, sys
p = "/verif/known_findings.json"
d = json.load(open(p))
if sys.argv[1] == "fixed":
    _, _, prop, commit, key, what = sys.argv
    d["fixed"].append({"property": prop, "commit": commit, "key": key, "line": "fixed: property=%s %s %s" % (prop, commit, what)})
else:
    _, _, prop, key, inp, what = sys.argv
    d["open"].append({"property": prop, "key": key, "input": inp, "what": what})
json.dump(d, open(p, "w"), indent=1)
print("ok", len(d["open"]), "open,", len(d["fixed"]), "fixed")
