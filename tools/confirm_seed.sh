#!/bin/bash
# usage: tools/confirm_seed.sh <seed dir with patch.diff demo.py meta.json> <Cxx> [more checks...]
# Confirms independently: patch applies to a scratch copy of /repo; baseline suite still passes with it;
# demo.py fails with the patch and passes without; then runs the named quick checks against the copy.
set -u
sd=$(readlink -f "$1"); shift
d=$(mktemp -d /tmp/bbs.XXXXXX)
if [ -n "${BASE:-}" ]; then git -C /repo archive "$BASE" | tar -x -C "$d"; else rsync -a --exclude .git /repo/ "$d/"; fi
echo "== demo on unchanged copy"; (cd "$d" && PYTHONPATH="$d/blackbird_python" PYTHONDONTWRITEBYTECODE=1 timeout 300 /venv/bin/python "$sd/demo.py" >/dev/null 2>&1; echo "demo exit (unchanged) = $?")
if ! (cd "$d" && patch --binary -p1 -s < "$sd/patch.diff"); then echo "PATCH FAILED"; rm -rf "$d"; exit 2; fi
echo "== baseline with patch"; /verif/tools/baseline.py "$d" | head -4
echo "== demo with patch"; (cd "$d" && PYTHONPATH="$d/blackbird_python" PYTHONDONTWRITEBYTECODE=1 timeout 300 /venv/bin/python "$sd/demo.py" 2>&1 | tail -3; echo "demo exit (patched) = ${PIPESTATUS[0]}")
cd /verif
for p in "$@"; do
  echo "== check $p on patched copy"
  BBV_REPO="$d" /venv/bin/python -m bbv.run "$p" --tier "${TIER:-quick}" --no-evidence 2>&1 | grep -E "^(VIOLATION|KNOWN-FINDING|RESULT|HARNESS|   class)" | cut -c1-300 | head -${LINES_MAX:-8}
done
rm -rf "$d"
