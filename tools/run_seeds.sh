#!/bin/bash
# Re-validate the machinery against every kept seed: apply seeded/<id>/patch.diff to a scratch copy of /repo,
# run the quick tier of each check listed in meta.json "caught_by" against the copy, expect exit 1 + VIOLATION.
# usage: tools/run_seeds.sh [ids...]      prints one line per (seed, check): CAUGHT | MISSED
cd "$(dirname "$(readlink -f "$0")")/.."; root=$(pwd)
ids=${@:-$(ls seeded)}
miss=0
for id in $ids; do
  checks=$(/venv/bin/python -c "import json;print(' '.join(json.load(open('seeded/$id/meta.json'))['caught_by']))")
  d=$(mktemp -d /tmp/bbs.XXXXXX)
  rsync -a --exclude .git /repo/ "$d/"
  if ! (cd "$d" && patch --binary -p1 -s < "$root/seeded/$id/patch.diff"); then echo "$id PATCH-FAILED"; miss=1; rm -rf "$d"; continue; fi
  for c in $checks; do
    out=$(BBV_REPO="$d" /venv/bin/python -m bbv.run $c --tier quick --no-evidence 2>&1); rc=$?
    nv=$(echo "$out" | grep -c '^VIOLATION')
    if [ $rc -eq 1 ] && [ $nv -gt 0 ]; then echo "$id $c CAUGHT ($nv classes)"; else echo "$id $c MISSED rc=$rc"; miss=1; fi
  done
  rm -rf "$d"
done
exit $miss
