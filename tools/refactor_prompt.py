#!/venv/bin/python
"""Prompt for a sub-agent asked for behaviour-PRESERVING refactorings (to test that the checks stay silent)."""
import json, sys
wt = sys.argv[1]; out = sys.argv[2]; focus = sys.argv[3]
props = [json.loads(l) for l in open("/verif/properties.jsonl")]
plist = "\n".join("  %s %s: %s" % (p["id"], p["title"], p["statement"]) for p in props)
print(f"""You are helping to evaluate a verification effort for the open-source Python package XanaduAI/blackbird (parser, evaluator and serializer for the Blackbird quantum assembly language, ANTLR-generated grammar).

You have your own scratch git worktree of the repository at {wt} (detached checkout; work ONLY inside it and inside {out}; never touch /repo or /verif and do not read anything under /verif). The package is in {wt}/blackbird_python/blackbird.
IMPORTANT: the virtualenv has an editable install pointing at /repo, so ALWAYS run python with PYTHONPATH={wt}/blackbird_python, e.g.
  cd {wt} && PYTHONPATH={wt}/blackbird_python /venv/bin/python -m pytest -q -p no:cacheprovider
(467 tests pass, 21 always fail on this image because of NumPy 2 - that is the baseline. No network.)

These semantic properties of blackbird are supposed to hold and MUST KEEP HOLDING after your changes:
{plist}

YOUR TASK: produce THREE different, realistic, BEHAVIOUR-PRESERVING refactorings of the hand-written source (listener.py, auxiliary.py, program.py, utils.py, error.py, __init__.py - not the ANTLR-generated files), of the kind a maintainer does during clean-up, with the focus: {focus}. Each must be non-trivial (touch real logic, tens of lines are fine), keep every one of the properties above true for ALL inputs (not just the tested ones), keep the public API (blackbird.load/loads/dump/dumps, BlackbirdProgram and its public attributes/methods, BlackbirdListener, RegRefTransform and its attributes, blackbird.utils.to_DiGraph/match_template/TemplateError, blackbird.error.BlackbirdSyntaxError, blackbird.listener.parse(data, listener=..., cwd=...)) and keep the test-suite result identical (same 467 pass). Internal/private names (leading underscore, module-level tables, helper functions), code structure, caching that is correctly invalidated, data structures, comments and the wording of error messages (but not exception types, and keep the '(line L:C)' pattern and quoted identifiers in syntax errors) may all change freely. Be careful: a refactoring that subtly changes behaviour for some input is NOT wanted here.

For each refactoring k in (a, b, c) write into {out}/R{{k}}/ :
  patch.diff  - `git diff` relative to the worktree HEAD (must apply with `patch -p1` at the repository root; note utils.py has CRLF line endings - preserve them)
  meta.json   - {{"summary": "<what was refactored>", "why_preserving": "<argument why no property can change>", "files": [..]}}
Verify for each: apply in the worktree, run the full test-suite (467 passed / 21 failed as before), then `git -C {wt} checkout -- .` before the next one. Leave the worktree clean. Report a two-line summary per refactoring.""")
