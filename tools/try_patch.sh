#!/bin/bash
# usage: tools/try_patch.sh <patch.diff> [--no-baseline] <Cxx> [<Cyy> ...]
# Applies a patch to a scratch copy of /repo (outside /repo and /verif), optionally runs the baseline
# suite there, then runs the named quick checks against the copy (BBV_REPO), and removes the copy.
set -u
patch=$(readlink -f "$1"); shift
base=1
if [ "${1:-}" = "--no-baseline" ]; then base=0; shift; fi
d=$(mktemp -d /tmp/bbs.XXXXXX)
if [ -n "${BASE:-}" ]; then git -C /repo archive "$BASE" | tar -x -C "$d"; else rsync -a --exclude .git /repo/ "$d/"; fi
if ! (cd "$d" && patch --binary -p1 -s < "$patch"); then echo "PATCH FAILED"; rm -rf "$d"; exit 2; fi
if [ $base = 1 ]; then /verif/tools/baseline.py "$d" | head -5; fi
cd /verif
for p in "$@"; do
  BBV_REPO="$d" /venv/bin/python -m bbv.run "$p" --tier "${TIER:-quick}" --no-evidence 2>&1 | grep -E "^(VIOLATION|KNOWN-FINDING|RESULT|HARNESS|   class)" | cut -c1-260 | head -${LINES_MAX:-12}
done
rm -rf "$d"
