#!/venv/bin/python
"""Regenerate the seed table of DESIGN.md section 7 from seeded/*/meta.json (between the SEEDTABLE markers)."""
import glob, json, os, re
V = os.path.dirname(os.path.dirname(os.path.abspath(__file__)))
rows = []
n = first = pre = gaps = 0
for d in sorted(glob.glob(os.path.join(V, "seeded", "*"))):
    m = json.load(open(os.path.join(d, "meta.json")))
    sid = os.path.basename(d)
    summ = m.get("summary", "").replace("\n", " ").replace("|", "\\|")
    if len(summ) > 240:
        summ = summ[:237] + "..."
    ran = m.get("ran", "")
    if not m.get("caught_by"):
        tag = "**not caught** (known gap, section 8)"; gaps += 1
    elif "would have been MISSED" in ran:
        tag = " (strengthened after reading the summary, before the first run)"; pre += 1
    elif "first run:" in ran or "MISSED" in ran:
        tag = " (after strengthening)"; first += 1
    else:
        tag = ""
    n += 1
    rows.append("| %s | %s | %s%s |" % (sid, summ, ", ".join(m.get("caught_by", [])), tag))
table = "| seed | what the change does | caught by |\n|---|---|---|\n" + "\n".join(rows) + "\n\nTotals: %d seeds; %d not caught (known gaps, section 8); %d caught by the checks as they stood when the seed arrived; %d caught after a check was strengthened following a miss; %d where the check was strengthened after reading the sub-agent's summary and before the first run (third and eighth waves).\n" % (n, gaps, n - first - pre - gaps, first, pre)
p = os.path.join(V, "DESIGN.md")
s = open(p).read()
a = s.index("<!-- SEEDTABLE:BEGIN -->"); b = s.index("<!-- SEEDTABLE:END -->"); s = s[:a] + "<!-- SEEDTABLE:BEGIN -->\n" + table + s[b:]
open(p, "w").write(s)
print(n, first, pre)
