#!/venv/bin/python
"""Run the repository's pinned test-suite (guard OFF) and compare with /root/.vp/BASELINE.json.

usage: tools/baseline.py [repo_dir]      exit 0 iff every stable_pass test passes.
"""
import json, os, subprocess, sys, tempfile, xml.etree.ElementTree as ET

def main():
    repo = sys.argv[1] if len(sys.argv) > 1 else "/repo"
    base = json.load(open("/root/.vp/BASELINE.json"))
    with tempfile.TemporaryDirectory() as d:
        out = os.path.join(d, "r.xml")
        env = dict(os.environ)
        env.pop("XANADUAI_BLACKBIRD_VERIF", None)
        env["PYTHONPATH"] = os.path.join(repo, "blackbird_python")  # the venv has an editable install of /repo: make the copy win
        env["PYTHONDONTWRITEBYTECODE"] = "1"
        subprocess.run(["/venv/bin/python", "-m", "pytest", "-ra", "-q", "-p", "no:cacheprovider",
                        "--timeout=900", "--continue-on-collection-errors", "--junitxml=" + out],
                       cwd=repo, env=env, stdout=subprocess.DEVNULL, stderr=subprocess.DEVNULL)
        passed = set()
        for tc in ET.parse(out).getroot().iter("testcase"):
            if not any(ch.tag in ("failure", "error", "skipped") for ch in tc):
                passed.add("%s::%s" % (tc.get("classname"), tc.get("name")))
    want = set(base["stable_pass"])
    missing = sorted(want - passed)
    print("baseline: %d stable_pass, %d passed now, %d missing" % (len(want), len(passed), len(missing)))
    for m in missing[:20]:
        print("  MISSING", m)
    return 1 if missing else 0

if __name__ == "__main__":
    sys.exit(main())
