#!/venv/bin/python
"""Regenerate /verif/MANIFEST.json from the table below and validate it against the schema."""
import json
import os
import subprocess
import sys

V = os.path.dirname(os.path.dirname(os.path.abspath(__file__)))
PY = "/venv/bin/python"

CHECKS = {
    "C14": ("model_checking", "explicit-state exploration of automata products (g4-derived NFA x shipped ATN) + replay of all access strings and bounded sentences on the real lexer/parser",
            "The lexer claim is complete for all character strings (every reachable state of the product of the grammar-derived automaton with the deserialised lexer ATN carries the same earliest-accepting-rule label); the parser claim is complete per rule (equal regular languages over token/rule names for all 35 rules, plus per-operator precedence table); all eight ATN copies, vocabularies and rule skeletons of both targets are compared element by element; real-parser verdicts are checked on every bounded sentence per rule and every single-token mutation. Also: pairs of lexers advanced in lock step and parsers built before either runs; every exemplar token between every pair of 12 neighbour tokens; every assignment of spellings to the TAB / NEWLINE / BOOL tokens of a sentence; a control-flow check of the C++ rule functions (every case block of a switch leaves it).",
            "Trusted: ANTLR Python runtime ATNDeserializer, the g4 reader. The C++ parser is not executed (no C++ ANTLR runtime): for C++ only identity of automata, vocabularies and rule skeletons is claimed.",
            "DESIGN.md section 5 C14"),
    "C10": ("exploration", "bounded-exhaustive token-level mutation and token-soup enumeration vs g4-derived Earley oracle",
            "Every single-token deletion, truncation, substitution, insertion and adjacent swap of base scripts covering every rule context, and every token soup up to the stated length after valid prefixes, is run through the real syntax stage, loads and (for a stratified subset plus every non-ASCII text) load; verdict, exception type and reported position are compared with a recogniser derived mechanically from blackbird.g4. Complete for the stated alphabet and bounds. The file cases overwrite one working file per worker that has just been loaded with a valid script.",
            "Trusted: g4 reader, reference tokenizer and Earley recogniser (themselves proved equal to the shipped automata by C14). LF line ends only; message wording not inspected.",
            "DESIGN.md section 5 C10"),
    "C03": ("exploration", "bounded-exhaustive enumeration of expression token strings and literal forms vs precedence-climbing reference evaluator",
            "All well-formed expression token strings up to the stated number of operand positions (every operand tuple, stacked unary signs, operator tuple, bracket span set, function application at every span, with and without blanks) and every numeric-literal string up to a length bound accepted by the grammar-derived lexer are evaluated by the implementation and by an independent reference (precedence climbing from the property's binding order; exact ints, IEEE doubles, cmath). Complete for the stated alphabets/bounds. Also: boundary literals and exact integer arithmetic on them; a ** b for b in -70..70 over 9 bases; additive chains over terms of very different size; variables whose names mean something to Python / NumPy / SymPy or look like registers.",
            "Trusted: reference parser/evaluator, math/cmath, fractions. Tolerance 1e-12 x largest intermediate + sensitivity probe; out-of-domain cases dropped by the reference only.",
            "DESIGN.md section 5 C03"),
    "C05": ("exploration", "bounded-exhaustive enumeration of declarations (type x shape x parameter placement x ragged vectors x indices) with a by-construction oracle",
            "Every scalar declaration of the type x initialiser table, every array declaration up to 4x4 (thorough 5x5) with every declared-shape variant and every subset of parameter positions (bounded for large arrays), every non-constant row-length vector, every in-range index: layout, dtype kind, shape, refusal of ragged/contradicting shapes. Complete for the stated bounds. Also: integers beyond 2**53, string contents (non-ASCII, backslashes, other line-boundary characters), variables named like float() literals inside array rows, whole-array expressions after the declarations (variables must keep their values), declarations placed after statements and loops.",
            "Trusted: the by-construction expectation (distinct element values). dtype of arrays containing parameters not constrained.",
            "DESIGN.md section 5 C05"),
    "C06": ("exploration", "bounded-exhaustive enumeration of loop headers x bodies x contexts, differential against the textual unrolling",
            "Every loop header (ranges incl. empty and overshooting steps, value lists in 3 bracket styles, 4 types) x every body shape x 4 contexts is loaded and compared, operation by operation (exact canonical digests), with the load of its textual unrolling; loop-variable scoping and wrong-type refusals checked for every header. Complete for the stated alphabet. Also: values just beside a value of the loop type; six contexts incl. earlier loops with declarations / re-declarations in between.",
            "Trusted: the unrolling transformation (string substitution of a bracketed literal) and Python range semantics.",
            "DESIGN.md section 5 C06"),
    "C11": ("exploration", "bounded-exhaustive single-fault injection into valid scripts (fault class x slot x position)",
            "Valid prefix x valid suffix x exactly one fault from the complete menu (undefined name in every syntactic slot incl. metadata options, reserved names in every declaration form, non-integer modes of every value kind, literal and computed complex values into int/float scalars, arrays and loops, wrong-type loop values, mismatched include calls): loading must raise, and for undefined/reserved names raise BlackbirdSyntaxError with identifier, line and column. Also: names that an included file declares; names in the body of a loop that never runs (recorded finding); every grammar-derived statement of <= 7 tokens whose modes the reference evaluates to a non-integer.",
            "Exception type constrained only where the property names it; column accepted 0- or 1-based.",
            "DESIGN.md section 5 C11"),
    "C07": ("exploration", "bounded-exhaustive enumeration of included programs x call-site patterns x directory layouts x working directories vs model inlining",
            "Every included program over every 1-/2-/3-subset of an 8-mode universe in every order of first use with 0-2 parameters x every call-site pattern; every combination of 6 directory layouts x duplicate-include variants x 4 process working directories x 2 load-argument styles; nesting depth 1-3 with the inner subroutine also called directly before/after the outer one. Each is loaded through blackbird.load from real files and compared with the reference model's inlining. Complete for the stated menus. Also: parameter forwarding through two levels of templates in every pattern (crossed, cyclic, repeated, inside expressions) x shared / rotated / disjoint parameter names; include graphs that are not chains (diamonds, shared leaves, differently spelt paths, one path string for different files); decoy files under the same relative name in the working directory; measured-register expressions as values of an include call's keyword arguments.",
            "Trusted: reference model inlining (sorted(sub.modes)[k] -> call modes[k]). Register references inside included programs and positional arguments of include calls are not generated.",
            "DESIGN.md section 5 C07"),
    "C12": ("model_checking", "explicit-state BFS over load/loads call histories on the real module state (fork-per-history), differential against fresh-interpreter outcomes",
            "States are the canonical content of every module-level mutable object of blackbird.*; transitions are real load/loads calls of a menu of about 60 events built to collide on names (valid scripts, templates, tdm, scripts failing at every stage incl. inside includes and inside divisions, probes whose metadata/body mention leftover names, relative loads after a change of working directory, rewrites of an included file); the state also holds process-wide numeric settings. BFS to the fixpoint of the canonical state space plus all raw histories of length <=2 (thorough <=3); every transition's outcome must equal the script's outcome in a pristine interpreter; programs of consecutive loads must share no mutable object. Also: repetition histories (every event 24 times in a row, thorough 60, and 10 alternations), duplicate and nested-duplicate includes, the same functions at numerically equal arguments of different types.",
            "Each history starts from the import-time state via fork (no knowledge of the state's names needed). ANTLR caches treated as transparent (cold pristine vs warm histories agree).",
            "DESIGN.md section 5 C12"),
    "C13": ("model_checking", "explicit-state BFS over API event sequences on real program objects (replay-from-scratch), invariant checked in every state",
            "13 programs/templates chosen for aliasing potential x 22 events (dumps, attribute reads, to_DiGraph, two template calls and a repeated one, match_template, operations on instances, 8 kinds of mutation of instances); BFS to depth 3 (thorough 4) with de-duplication on the tuple of digests; in every state: the program's digest (serialisation + deep content incl. optional keys) is unchanged, an instance changes only by mutations addressed to it, equal calls give equal instances. Also: the caller's own ndarray passed as an array-valued parameter (same object at every call, modified by the caller afterwards); to_DiGraph as a third observation and edits of a returned graph as an event; the digest reads the attributes before and after serialising.",
            "Digest observes programs through public attributes and dumps(). Mutations of the returned graph are not events.",
            "DESIGN.md section 5 C13"),
    "C01": ("exploration", "bounded-exhaustive enumeration of valid scripts from the shared alphabet; round trip iterated to a text fixpoint",
            "Every script of the stated families (all single arguments x metadata variants, all ordered pairs of about 80 argument shapes in four syntactic arrangements, list keywords, mode forms, loops, tdm programs with p-arrays; thorough: triples, options x pairs, 3 statements) is loaded, serialised and re-loaded generation after generation until the text repeats; each generation must be equivalent to the previous one (exact for numbers/booleans/strings/lists/arrays, by evaluation for symbolic arguments). All generations are covered because dumps o loads is a function of the text once it repeats. Also: 171 floats at and around multiples of pi / e / 1 / 1/3 / sqrt 2 / powers of ten in every position; pairs of arrays that coincide in numbers or memory image but differ in shape or element type; strings with non-ASCII, backslash, tab, comment and other line-boundary characters (also inside lists and options); parameter names that mean something to Python / SymPy; every single-argument script also through dump()/load() of one working file per worker.",
            "Trusted: the equivalence (bbv/props/equiv.py). Variables of non-tdm programs and presence of an args key are not compared.",
            "DESIGN.md section 5 C01"),
    "C08": ("model_checking", "stateless schedule exploration: every combination of symbol-set iteration orders (forced-prefix reruns) per enumerated case, vs reference model",
            "Cases = 22 (thorough 24) polynomial/rational expression shapes (incl. tiny, many-digit and huge coefficients, repeated registers) x every ordered choice of distinct registers from {q0,q1,q3,q10} (thorough adds q007) x {positional, keyword, both} x {plain, after a measurement, inside a for-loop}. For every case every resolution of the intercepted nondeterminism (iteration order of free_symbols at every site reached from blackbird code) is executed; in each the transform must list exactly the written registers and its function, applied in the listed order, must compute the written formula. Also: declared variables whose names contain register look-alikes; several register arguments over different register sets in one statement; post-selected measurements of the same modes before the statement; scaled factored differences raised to the 5th / 7th power evaluated next to their root.",
            "The seam is in SymPy (Basic.free_symbols), installed by the harness; sets of ints are deterministic in CPython and not choice points.",
            "DESIGN.md section 5 C08"),
    "C19": ("model_checking", "stateless schedule exploration of symbol-set iteration orders per pipeline stage + one real interpreter per PYTHONHASHSEED of a seed cover",
            "For each of 21 scripts (several overlapping parameter names / registers in one argument, parameters in keywords, arrays and variables, tdm, loops, includes on 2-3 modes in non-increasing set order) and each stage (load, dumps, template call, to_DiGraph, match_template, second generation) every combination of iteration orders at every symbol-set iteration reached from blackbird code is executed and must give one observation; the whole menu is also run in fresh interpreters under hash seeds added until every k! order of every name group (as str and as Symbol) has been realised; all must agree. Also: the processes rotate over 5 working directories (two hold other programs under the relative names that file scripts include), import the package before changing directory, go through the menu in a different rotation each, and repeat dumps / instantiation / a refused call on the same objects.",
            "Two of every seven processes of the seed cover run under -O / -OO, every seventh in the C locale without UTF-8 mode, and three of every seven first change a process-wide setting of the libraries below (warnings filter, NumPy print options); four scripts with out-of-domain function arguments, computed floats, overflowing values and long arrays are compared between all processes through load and dumps. Observation = canonical content (register lists normalised, function re-paired) + serialised text. Seam in SymPy free_symbols; other set sites are covered only by the real seed cover.",
            "DESIGN.md section 5 C19"),
    "C09": ("exploration", "bounded-exhaustive enumeration of API-built programs over a value alphabet (kind x edge value x position) with serialise/re-load differential",
            "Programs are assembled through the Python API from a value alphabet of about 150 values (every supported kind, edge values such as negative zero, subnormals, 1e+-300, int64 extremes, overlapping parameter names) in every position (positional, keyword, target option, type option), all ordered pairs, lists x lists, mode lists as ints and np.int64, with/without args keys, pairs of arrays x metadata variants (hoisting/numbering). dumps must succeed, the text must load, and the result must be equivalent (arrays bit-exact incl. sign of zero). Also: 342 near-special floats and 32 strings (other line-boundary characters, tabs, backslashes, non-ASCII, token look-alikes) singly in every position; non-contiguous and same-image-different-dtype arrays; the full target x type grid for programs with arrays; dump()/load() of one working file per worker.",
            "Operations carry both or neither of args/kwargs; strings quote-free. Three recorded findings (empty list, functions of parameters, arrays in metadata options).",
            "DESIGN.md section 5 C09"),
    "C15": ("exploration", "bounded-exhaustive enumeration of tdm scripts (p-array name x type x shape x usage x neighbouring features) vs reference model + round trip",
            "Every tdm script of the stated families (p0/p1/p12 arrays of every element type and shape in every usage, non-p look-alike names, scalars named p0, p-arrays next to every ordinary variable kind, template parameters and loops, also with another type and without type) is loaded and compared with the reference model (argument delivered as the name, variables keep the array, no p-name among the parameters, is_template iff a {} parameter was written), then serialised and re-loaded (p-arrays exact, references and operations preserved). Also: p-array element values (many-digit and near-special doubles, range ends; float and complex), whole-array-template p-arrays, twins of p-arrays, tdm programs with includes.",
            "Extra hoisted variables after re-load not compared.",
            "DESIGN.md section 5 C15"),
    "C04": ("exploration", "bounded-exhaustive enumeration of template scripts x value assignments, differential against textual substitution",
            "Template scripts = slot x expression form x parameter-name set (incl. overlapping and p-like names), arrays with a bare parameter at every subset of positions, whole-array parameters; for every assignment of values from each class to the parameters, loads(S)(**v) is compared operation by operation and variable by variable with loads(S[{p} := (repr v)]); reported parameters, is_template, absence of parameters in the instance and ValueError on a missing value are checked for every case. Also: 13 name pairs that mean something to Python / SymPy (found F31/F32); array-valued parameter values handed over as list / tuple / ndarray / Fortran-ordered / transposed / reversed / strided views; integer values next to non-integer literal elements.",
            "dtype of instantiated arrays and int-vs-float kind not compared; absolute slack 1e-12*(1+max|v|)^3 keeps cancelling cases (excluded by the property) silent. One recorded finding (functions of parameters).",
            "DESIGN.md section 5 C04"),
    "C16": ("exploration", "exhaustive enumeration of ALL programs of n operations over a finite operation alphabet, vs reference reachability + all topological orders",
            "All sequences of n operations (n<=3 over the full 72-variant alphabet incl. register dependencies in positional/keyword position and with/without args key; register-free to n=5, thorough n=4 full / n=6) are converted with the real to_DiGraph; node set and attributes, edge direction, reachability against the reference wire relation, and (n<=5) every topological order are checked; plus two-statement scripts loaded from text so the transforms are the parser's own. Also: keyword arguments named like node fields (modes, args, kwargs, op); long programs (9-33, thorough 65 operations) with ALL placements of 2-3 operations on one watched wire; ALL call sequences of <= 3 (thorough 4) steps over graph / instantiate / match / dumps / append / re-mode on three scripts.",
            "Reference relation: share a mode or measured register, closed under increasing chains.",
            "DESIGN.md section 5 C16"),
    "C17": ("exploration", "bounded-exhaustive enumeration of templates x value classes x ALL linear extensions x all single structural edits, with a brute-force reference for edit verdicts",
            "Templates of 1-3 (thorough 4) operations over 3 modes with affine single-parameter arguments and repeated parameters; for each, the instance and every reordering that preserves per-mode order must match, return exactly the template parameters and reproduce the arguments on re-instantiation; every single structural edit must raise TemplateError unless a brute-force bijection search shows the edited program is still an instance. Also: 23 parameter names that mean something to SymPy / Python; operations with two arguments (constant before / after the parametrised one); negative generic and integer value classes; a 2-mode deep-structure family with gates on either side of the repeated name.",
            "Arguments compared to 1e-9 relative; value class rotated per template (all classes on parameter-repeating templates).",
            "DESIGN.md section 5 C17"),
    "C18": ("exploration", "bounded-exhaustive metamorphic enumeration of layout edits at every site x global styles, gated by the g4-derived reference tokenizer",
            "For 8 base scripts (per-line mixed indentation included) covering every rule that mentions NEWLINE or TAB: every single layout edit at every site (spaces 1-3 at each intra-line token boundary and line end, trailing comments, inserted blank / space-only / comment lines outside array bodies) x global styles (LF/CRLF/CR, tab vs four spaces, final newline or not), lines before the metadata, and (thorough) all pairs of line edits on short bases; the loaded program's exact canonical digest must equal the base's. Also: 15 comment texts (trailing backslash, quotes, statements, keywords, non-ASCII, other line-boundary characters); comment/blank headers of exactly n characters around 2048 / 4096 / 8192 up to 20000; a base ending in an array; the file interface for the style, header and own-line-comment variants.",
            "Spacing edits are used only when the reference tokenizer confirms an unchanged token sequence. One recorded finding (line directly after a for header).",
            "DESIGN.md section 5 C18"),
    # id: (category, technique, text, note, design_ref)
    "C02": ("exploration", "bounded-exhaustive enumeration of script prefixes (BFS over item sequences) vs reference denotation",
            "Every item sequence over the statement menu up to the stated depth is rendered, loaded by the real parser/evaluator and compared with an independently written reference denotation; complete for the stated alphabet and depth, nothing beyond. Deeper levels (quick 4, thorough 6 items) are reached by an explicit-state search with merging: one representative prefix per canonical state (model environment, the implementation's tables after the load, mode set, capped number of operations, kinds of the last items); every reached script is still compared in full, states and transitions are reported.",
            "Trusted: the reference denotation (bbv/model), CPython/NumPy/SymPy. Values outside the alphabets and scripts longer than the bound are not covered.",
            "DESIGN.md section 5 C02"),
}

NOT_YET = "check not built yet in this session (planned, see DESIGN.md section 5)"


def main():
    props = [json.loads(l) for l in open(os.path.join(V, "properties.jsonl"))]
    checks = []
    na = []
    for p in props:
        pid = p["id"]
        if pid in CHECKS and os.path.exists(os.path.join(V, "bbv", "props", pid.lower() + ".py")):
            cat, tech, text, note, ref = CHECKS[pid]
            checks.append({
                "property_id": pid,
                "quick_cmd": "%s -m bbv.run %s --tier quick" % (PY, pid),
                "thorough_cmd": "%s -m bbv.run %s --tier thorough" % (PY, pid),
                "evidence_file": "/verif/evidence/%s.json" % pid,
                "replay_cmd_template": "%s -m bbv.run --replay {path}" % PY,
                "engine": "bbv",
                "level_claimed": {"category": cat, "text": text, "design_ref": ref},
                "level_note": note,
                "technique": tech,
            })
        else:
            na.append({"property_id": pid, "reason": NOT_YET})
    man = {
        "version": 1,
        "setup_cmd": "cd /verif && %s -m compileall -q bbv tools && %s -m bbv.selfcheck" % (PY, PY),
        "hooks": {
            "guard": "XANADUAI_BLACKBIRD_VERIF",
            "enable": "no source hooks are needed: every observation point is reachable from outside (public API, module tables by import, parse(listener=...), a seam installed in SymPy by the harness); the checks export XANADUAI_BLACKBIRD_VERIF=1 and PYTHONPATH=/repo/blackbird_python so they always run /repo's working tree",
            "baseline_off_cmd": "cd /repo && env -u XANADUAI_BLACKBIRD_VERIF /venv/bin/python -m pytest -ra -q -p no:cacheprovider --timeout=900 --continue-on-collection-errors",
            "source_commits": [],
            "add_only": True,
        },
        "engines": [{"name": "bbv", "path": "/verif/bbv", "serves_properties": [c["property_id"] for c in checks],
                     "kind_free_text": "hand-written bounded-exhaustive explorer for Python: input enumerators, explicit-state BFS over call histories, choice-point (iteration-order) schedule explorer, automata-product explorer for the ANTLR artefacts; drives the real implementation on every case"}],
        "checks": checks,
        "not_applicable": na,
        "notes": "All checks: `python -m bbv.run <id> --tier quick|thorough`; replay: `python -m bbv.run --replay <file>`; known findings: /verif/known_findings.json; seeded property-breaking changes: /verif/seeded/.",
    }
    json.dump(man, open(os.path.join(V, "MANIFEST.json"), "w"), indent=1)
    r = subprocess.run(["python3-vt", "-c", "import json,jsonschema;jsonschema.validate(json.load(open('%s/MANIFEST.json')),json.load(open('/root/.vp/MANIFEST.schema.json')));print('MANIFEST valid: %d checks, %d not_applicable')" % (V, len(checks), len(na))])
    return r.returncode


if __name__ == "__main__":
    sys.exit(main())
