#!/bin/bash
# Every behaviour-preserving refactoring under /verif/refactorings must leave ALL quick checks silent.
# usage: tools/run_refactorings.sh [J] [NPROC]     prints one line per (refactoring, check): SILENT | ALARM | n/a (patch does not apply any more)
cd "$(dirname "$(readlink -f "$0")")/.."; root=$(pwd)
J=${1:-3}; NP=${2:-5}
one() {
  id=$1; root=$2; NP=$3
  d=$(mktemp -d /tmp/bbr.XXXXXX)
  rsync -a --exclude .git /repo/ "$d/"
  if ! (cd "$d" && patch --binary -p1 -s < "$root/refactorings/$id/patch.diff" >/dev/null 2>&1); then echo "$id n/a (patch does not apply to the current /repo)"; rm -rf "$d"; return; fi
  for c in C01 C02 C03 C04 C05 C06 C07 C08 C09 C10 C11 C12 C13 C14 C15 C16 C17 C18 C19; do
    out=$(cd "$root" && BBV_NPROC=$NP BBV_REPO="$d" /venv/bin/python -m bbv.run $c --tier quick --no-evidence 2>&1); rc=$?
    if [ $rc -eq 0 ]; then echo "$id $c SILENT"; else echo "$id $c ALARM rc=$rc $(echo "$out" | grep -m1 'class=' | cut -c1-160)"; fi
  done
  rm -rf "$d"
}
export -f one
ls refactorings | xargs -P "$J" -I{} bash -c 'one {} '"$root"' '"$NP"
