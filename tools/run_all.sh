#!/bin/bash
# usage: tools/run_all.sh quick|thorough [ids...]   - runs checks sequentially, prints one summary line each
tier=${1:-quick}; shift
ids=${@:-C01 C02 C03 C04 C05 C06 C07 C08 C09 C10 C11 C12 C13 C14 C15 C16 C17 C18 C19}
for p in $ids; do
  s=$(date +%s)
  out=$(/venv/bin/python -m bbv.run $p --tier $tier 2>&1)
  rc=$?
  e=$(date +%s)
  echo "$p rc=$rc $((e-s))s $(echo "$out" | grep -E '^RESULT' | head -1) $(echo "$out" | grep -c '^VIOLATION') violations $(echo "$out" | grep -c '^KNOWN-FINDING') known"
  if [ $rc -ne 0 ]; then echo "$out" | grep -E "VIOLATION|class=|HARNESS|Error" | head -8 | cut -c1-300; fi
done
