#!/bin/bash
# Parallel variant of tools/run_seeds.sh: J seeds at a time, each check with BBV_NPROC workers.
# usage: tools/run_seeds_par.sh [J] [NPROC] [ids...]     prints one line per (seed, check): CAUGHT | MISSED ; exit 0 iff all caught
cd "$(dirname "$(readlink -f "$0")")/.."; root=$(pwd)
J=${1:-4}; NP=${2:-4}; shift 2 2>/dev/null
ids=${@:-$(ls seeded)}
one() {
  id=$1; root=$2; NP=$3
  checks=$(/venv/bin/python -c "import json;print(' '.join(json.load(open('$root/seeded/$id/meta.json'))['caught_by']))")
  d=$(mktemp -d /tmp/bbs.XXXXXX)
  rsync -a --exclude .git /repo/ "$d/"
  if ! (cd "$d" && patch --binary -p1 -s < "$root/seeded/$id/patch.diff"); then echo "$id PATCH-FAILED"; rm -rf "$d"; return; fi
  for c in $checks; do
    out=$(cd "$root" && BBV_NPROC=$NP BBV_REPO="$d" /venv/bin/python -m bbv.run $c --tier quick --no-evidence 2>&1); rc=$?
    nv=$(echo "$out" | grep -c '^VIOLATION')
    if [ $rc -eq 1 ] && [ $nv -gt 0 ]; then echo "$id $c CAUGHT ($nv classes)"; else echo "$id $c MISSED rc=$rc"; fi
  done
  rm -rf "$d"
}
export -f one
printf '%s\n' $ids | xargs -P "$J" -I{} bash -c 'one {} '"$root"' '"$NP" | tee /tmp/run_seeds_par.$$.log
if grep -q 'MISSED\|PATCH-FAILED' /tmp/run_seeds_par.$$.log; then rm -f /tmp/run_seeds_par.$$.log; exit 1; fi
rm -f /tmp/run_seeds_par.$$.log; exit 0
