#!/venv/bin/python
"""Print the prompt given to a fresh sub-agent that is asked for a property-breaking change."""
import json, sys
pid = sys.argv[1]; wt = sys.argv[2]; out = sys.argv[3]
p = [json.loads(l) for l in open("/verif/properties.jsonl") if json.loads(l)["id"] == pid][0]
print(f"""You are helping to evaluate a verification effort for the open-source Python package XanaduAI/blackbird (a parser, evaluator and serializer for the Blackbird quantum assembly language, built on an ANTLR-generated grammar).

You have your own scratch git worktree of the repository at {wt} (a detached checkout; work ONLY inside it and inside {out}; never touch /repo or /verif, and do not read anything under /verif). The package lives in {wt}/blackbird_python/blackbird, the grammar in {wt}/src/blackbird.g4, generated C++ artefacts in {wt}/blackbird_cpp.
IMPORTANT: the virtualenv has an editable install pointing at /repo, so ALWAYS run python with PYTHONPATH={wt}/blackbird_python so that your worktree's code is imported, e.g.
  cd {wt} && PYTHONPATH={wt}/blackbird_python /venv/bin/python -m pytest -q -p no:cacheprovider
(467 tests pass and 21 tests - 20 in test_auxiliary.py TestExpressionArray and test_listener.py::TestParsingVariables::test_array_variable_expression - always fail on this image because of NumPy 2; those 21 failures are the baseline and are expected. No network is available.)

Here is a semantic property of blackbird that is supposed to hold:

  id: {pid}
  title: {p['title']}
  statement: {p['statement']}
  quantified over: {p['quantifier']['text']}
  code the property is anchored in: {', '.join(p['anchors']['files'])}

YOUR TASK: produce TWO different, independent, realistic changes (bugs a developer could plausibly introduce during a refactoring, optimisation or feature addition) to the repository source, each of which BREAKS this property while the package still imports and the existing test-suite still gives exactly the same result as before (the same 467 tests pass). Prefer changes that need something specific to manifest — an unusual input, a particular combination of features, a multi-step sequence of API calls, a particular ordering, two cooperating sites that each look fine alone — rather than changes that ordinary use would expose at once. Do not write changes that merely make everything crash. Do not modify the tests. Keep each change small (a few lines). The two changes should be of different kinds / in different places.

For each change k in (a, b) write into {out}/{pid}{{k}}/ :
  patch.diff  - `git diff` of the change relative to the worktree's HEAD (must apply with `git apply` / `patch -p1` at the repository root)
  demo.py     - a small standalone program that exits 0 on the unchanged code and exits non-zero (with a short explanation printed) when the change is applied; run as: PYTHONPATH=<repo>/blackbird_python /venv/bin/python demo.py
  meta.json   - {{"property": "{pid}", "summary": "<what the change does>", "needs": "<what specific input/sequence/configuration is needed for it to manifest>", "files": [..]}}
Verify yourself, for each change: (1) apply it in the worktree, run the full test-suite, confirm 467 passed / 21 failed as before; (2) demo.py fails with the change; (3) `git -C {wt} checkout -- .` then demo.py passes. Between the two changes restore the worktree with `git -C {wt} checkout -- .`, and leave the worktree clean at the end.
Finish by reporting, for each change, a two-line summary and the verification results.""")
