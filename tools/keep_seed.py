#!/venv/bin/python
"""tools/keep_seed.py <seed-out dir> <id> <caught_by comma list or '-'> <ran text>  -> /verif/seeded/<id>/"""
import json, os, shutil, sys
src, sid, caught, ran = sys.argv[1:5]
dst = "/verif/seeded/" + sid
os.makedirs(dst, exist_ok=True)
for f in ("patch.diff", "demo.py"):
    shutil.copy(os.path.join(src, f), os.path.join(dst, f))
m = json.load(open(os.path.join(src, "meta.json")))
m["origin"] = "written by a fresh sub-agent given only the property text and a scratch worktree"
m["confirmed"] = "patch applies to a scratch copy of /repo; baseline suite 467/467 stable passes with it; demo.py exits 0 unchanged / non-zero patched (tools/confirm_seed.sh)"
m["caught_by"] = [] if caught == "-" else caught.split(",")
m["ran"] = ran
json.dump(m, open(os.path.join(dst, "meta.json"), "w"), indent=1)
print("kept", dst)
