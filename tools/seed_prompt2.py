#!/venv/bin/python
"""Second-wave prompt: same as seed_prompt.py plus the summaries of the changes already written for this property
(taken from the sub-agents' own earlier output), asking for different kinds of changes."""
import json, sys, subprocess, glob, os
pid = sys.argv[1]; wt = sys.argv[2]; out = sys.argv[3]
S1, S2 = (sys.argv[4], sys.argv[5]) if len(sys.argv) > 5 else ("g", "h")
base = subprocess.run(["/verif/tools/seed_prompt.py", pid, wt, out], capture_output=True, text=True).stdout
tried = []
for d in sorted(glob.glob("/verif/seeded/%s?" % pid)):
    m = json.load(open(os.path.join(d, "meta.json")))
    tried.append("  - " + m.get("summary", "")[:400])
extra = """
ADDITIONAL CONSTRAINTS FOR THIS ROUND: other engineers have already produced the following changes for this property; yours must be of a DIFFERENT kind and in a different place or mechanism (do not re-do these ideas or small variations of them):
%s
Use the suffixes %s and %s (directories %s/%s%s and %s/%s%s) instead of a and b. Prefer subtle changes whose effect depends on an INTERACTION (two language features used together, a particular order of API calls or of statements, a value at a boundary such as 0 / negative / empty / very large / repeated, names that resemble keywords or other names, state left over from an earlier call, a platform/environment aspect such as the working directory, line endings or hash seed), so that a test which exercises each feature separately would not notice.
NOTE: never use `git stash` (stashes are shared between all worktrees of the repository); use `git diff > file` and `git checkout -- .` instead. Changes that merely revert one of the repository's recent 'fix:' commits are not wanted. Changes that only take effect for inputs the property excludes (see "quantified over") are not wanted either.
""" % ("\n".join(tried), S1, S2, out, pid, S1, out, pid, S2)
print(base.replace("Finish by reporting", extra + "\nFinish by reporting").replace("each change k in (a, b)", "each change k in (%s, %s)" % (S1, S2)))
