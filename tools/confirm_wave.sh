#!/bin/bash
# usage: tools/confirm_wave.sh <out root> <J> "<id>:<checks...>" ...   - confirm_seed.sh for several seeds at a time; logs in /tmp/confirm/<id>.log
root=$1; J=$2; shift 2
one() { spec=$1; root=$2; id=${spec%%:*}; checks=${spec#*:}; BBV_NPROC=${NP:-4} /verif/tools/confirm_seed.sh $root/${id:0:3}/$id $checks > /tmp/confirm/$id.log 2>&1; echo "$id: $(grep -c '^VIOLATION' /tmp/confirm/$id.log) violation lines; $(grep -E 'demo exit|baseline:' /tmp/confirm/$id.log | tr '\n' ' ')"; }
export -f one
printf '%s\n' "$@" | xargs -P "$J" -I{} bash -c 'one "{}" '"$root"
